"""C07 — Each conclusion of a triggered rule contributes exactly its own activation.

Deciding step: a monitor on Rule.trigger snapshots every concluded output variable's fuzzy output before the call and
compares what was appended with the conclusions of the rule (exactly one activated term per conclusion on an enabled
variable: concluded term, block implication, nan_to_num(own hedges(rule degree)); nothing for disabled variables /
rules).  The workload forces degrees (0, 1, NaN, +-inf, batches) through a stub and re-runs every permutation of the
conclusions (metamorphic: contributions are independent of the order)."""
from __future__ import annotations

import copy
import itertools
import math

import numpy as np

from ..core import import_library
from ..gen import engines as E
from ..gen import terms as G
from ..env import ENVIRONMENTS, excusable, hostile
from ..probe import Probe, Reach, plain_function
from ..ref import norms as N
from ..ref import wiring as W

WORKERS = {"quick": 1, "thorough": 16}
nan, inf = math.nan, math.inf


def parse_consequent(text, extra=()):
    toks, out, i = text.split(), [], 0
    while i < len(toks):
        var = toks[i]
        if toks[i + 1] != "is":
            raise W.RuleSyntax("expected is")
        i += 2
        hs = []
        while toks[i] in W.HEDGE_NAMES or toks[i] in extra:
            hs.append(toks[i])
            i += 1
        out.append((var, hs, toks[i]))
        i += 1
        if i < len(toks):
            if toks[i] != "and":
                raise W.RuleSyntax("expected and")
            i += 1
    return out


class ConsequentMonitor:
    def __init__(self, ctx, fl):
        self.ctx, self.fl = ctx, fl
        self.H = W.Oracle(fl).H
        self.setter_calls = 0
        self.rejected = set()  # id(rule) of rules whose load the workload saw rejected: triggering them must add nothing
        self.engine_of = {}  # id(rule) -> engine the workload says the rule belongs to (its output variables are the ones meant)
        self.user_hedges = {}  # id(rule) -> [hedge functions per conclusion] the workload configured for hedges of its own classes
        self.api = {}  # id(rule) -> [(variable name, [hedge names], term name)] of a consequent the workload assembled by hand

    def install(self, probe):
        fl = self.fl
        probe.wrap(fl.Rule, "trigger", before=self._before, after=self._after)
        probe.wrap(fl.Consequent, "modify", after=lambda *a: None)
        probe.wrap_property_setter(fl.Activated, "degree", after=self._degree_set)

    def _degree_set(self, act, value):
        self.ctx.hit("event:Activated.degree set")
        d = np.asarray(act.degree, dtype=float)
        if np.any(~np.isfinite(d)):
            self.ctx.violation("Activated.degree stores a NaN or infinite degree", {"given": value}, "NaN,-inf -> 0; +inf -> 1", d)

    def _before(self, args, kwargs):
        rule = args[0]
        if id(rule) in self.rejected:
            owner = self.engine_of.get(id(rule))
            return {"rejected": {ov.name: (ov, len(ov.fuzzy.terms)) for ov in (owner.output_variables if owner is not None else [])}}
        if not rule.is_loaded():
            return None
        outs = {}
        owner = self.engine_of.get(id(rule))
        for c in rule.consequent.conclusions:
            if c.variable is not None and hasattr(c.variable, "fuzzy"):
                mine = next((v for v in owner.output_variables if v.name == c.variable.name), None) if owner is not None else None
                if mine is not None and mine is not c.variable:
                    self.ctx.hit("event:a conclusion is bound to a variable object outside its engine")
                outs.setdefault(c.variable.name, mine if mine is not None else c.variable)
        return {"outs": outs, "before": {n: list(v.fuzzy.terms) for n, v in outs.items()}, "degree": np.array(rule.activation_degree, dtype=float, copy=True), "enabled": bool(rule.enabled)}

    def _after(self, args, kwargs, st, result, exc):
        ctx, fl, rule = self.ctx, self.fl, args[0]
        implication = args[1] if len(args) > 1 else kwargs.get("implication")
        if st is None:
            return
        if "rejected" in st:
            ctx.evaluated()
            ctx.hit("piece:rule whose load was rejected")
            added = {n: len(ov.fuzzy.terms) - k for n, (ov, k) in st["rejected"].items() if len(ov.fuzzy.terms) != k}
            if added or rule.is_loaded():
                ctx.violation("a rule whose consequent was rejected reports loaded / contributes when triggered", {"rule": rule.text, "is_loaded": rule.is_loaded()}, "nothing added", added)
            return
        if exc is not None:
            ctx.hit(f"event:trigger raised {type(exc).__name__}")
            return
        own = self.user_hedges.get(id(rule))
        try:
            concl = self.api[id(rule)] if id(rule) in self.api else parse_consequent(rule.consequent.text, extra=("power",) if own else ())
        except (W.RuleSyntax, IndexError):
            ctx.hit("out_of_domain:consequent outside the documented grammar")
            return
        if any(len({t.name for t in v.terms}) != len(v.terms) for v in st["outs"].values()):
            ctx.hit("out_of_domain:duplicate term names in a variable")
            return
        if "modify" in vars(rule.consequent) or "trigger" in vars(rule):
            ctx.hit("out_of_domain:method replaced on the instance (mock)")
            return
        ctx.evaluated()
        deg = st["degree"]
        case = {"rule": rule.text, "rule_enabled": st["enabled"], "degree": deg, "variables_enabled": {n: bool(v.enabled) for n, v in st["outs"].items()}}
        expected = {n: [] for n in st["outs"]}
        if st["enabled"]:
            for ci, (var, hs, term) in enumerate(concl):
                ov = st["outs"].get(var)
                if ov is None:
                    ctx.hit("out_of_domain:conclusion on an unknown variable")
                    return
                if not ov.enabled:
                    ctx.hit("piece:conclusion on a disabled variable")
                    continue
                d = fl.scalar(deg)
                for hi in reversed(range(len(hs))):
                    # (a hedge of the workload's own class: the function the workload configured for this very conclusion)
                    d = self.H[hs[hi]].hedge(d) if hs[hi] in self.H else fl.scalar(own[ci][hi](d))
                expected[var].append((ov.term(term), np.nan_to_num(d, nan=0.0, neginf=0.0, posinf=1.0), hs))
        else:
            ctx.hit("piece:disabled rule")
        for n, ov in st["outs"].items():
            before, now = st["before"][n], ov.fuzzy.terms
            if len(now) < len(before) or any(a is not b for a, b in zip(before, now)):
                ctx.violation("triggering a rule removed or replaced earlier activations of a fuzzy output", dict(case, variable=n), len(before), len(now))
                return
            appended = now[len(before) :]
            want = expected[n]
            ctx.hit("compare:appended terms")
            if len(appended) != len(want):
                what = "a disabled rule" if not st["enabled"] else ("a disabled variable" if not ov.enabled else "an enabled variable")
                ctx.violation(f"number of activated terms added for {what} differs from its number of conclusions", dict(case, variable=n), len(want), len(appended))
                return
            for k, (act, (term, d, hs)) in enumerate(zip(appended, want)):
                if act.term is not term:
                    ctx.violation("an added activation carries another term than the concluded one", dict(case, variable=n, position=k), term.name, act.term.name)
                    return
                if act.implication is not implication:
                    ctx.violation("an added activation does not carry the block's implication operator", dict(case, variable=n, position=k), str(implication), str(act.implication))
                    return
                if not W.agree(ctx, act.degree, d, "activated degree"):
                    # name the mechanism: hedges of earlier conclusions, or hedge order
                    mech = "an added activation's degree is not the rule degree modified by its own hedges"
                    listed = fl.scalar(deg)
                    for h in hs:
                        listed = self.H[h].hedge(listed) if h in self.H else listed
                    if len(hs) > 1 and all(h in self.H for h in hs) and W.same(act.degree, np.nan_to_num(listed, nan=0.0, neginf=0.0, posinf=1.0)):
                        mech += " (hedges applied in listed order instead of nearest-the-term first)"
                    ctx.violation(mech, dict(case, variable=n, position=k, hedges=hs), d, act.degree)
                    return
                if hs:
                    ctx.hit("piece:hedged conclusion")
                dd = np.asarray(deg, dtype=float)
                ctx.hit(f"degree:{'grid' if dd.ndim > 1 else 'batch' if dd.size > 1 else 'nan' if math.isnan(float(dd)) else 'inf' if math.isinf(float(dd)) else 'zero' if float(dd) == 0 else 'one' if float(dd) == 1 else 'partial'}")
        if len(concl) > 1 and st["enabled"] and any(hs for _, hs, _ in concl[:-1]):
            ctx.nontrivial(rule.consequent.text, tuple(np.asarray(deg, dtype=float).ravel().tolist()), tuple(sorted(case["variables_enabled"].items())))
            ctx.hit("piece:hedge on an earlier conclusion of several")


def make_engine(fl, rnd):
    iv = fl.InputVariable("in0", minimum=0.0, maximum=1.0, terms=[fl.Ramp("t", 0.0, 1.0)])
    outs, specs = [], []
    for i in range(rnd.randint(1, 3)):
        lo, hi = E.gen_range(rnd)
        terms = [G.shape_term(rnd, f"b{i}{j}", lo, hi) for j in range(rnd.randint(1, 3))]
        specs.append(dict(name=f"out{i}", terms=terms))
        outs.append(fl.OutputVariable(f"out{i}", enabled=rnd.random() > 0.15, minimum=lo, maximum=hi, aggregation=fl.Maximum(), defuzzifier=fl.Centroid(10), terms=[G.build_term(fl, t) for t in terms]))
    return fl.Engine("e", input_variables=[iv], output_variables=outs), specs


def degrees(rnd):
    c = rnd.random()
    if c < 0.45:
        return rnd.choice([0.0, 1.0, 0.25, 0.5, rnd.random(), rnd.random()])
    if c < 0.6:
        return rnd.choice([nan, inf, -inf])
    if rnd.random() < 0.03:
        # several thousand rows (sparse / block-wise fast paths), rows that do not fire among them
        n = rnd.choice([4096, 4097, 8192, 10000])
        big = np.random.default_rng(rnd.randrange(10**6)).random(n)
        big[::3] = 0.0
        big[1::97] = nan
        return big
    batch = np.array([rnd.choice([0.0, 1.0, nan, inf, -inf, rnd.random(), rnd.random()]) for _ in range(rnd.choice([2, 3, 5, 6, 6]))])
    if batch.size == 6 and rnd.random() < 0.6:
        return batch.reshape(rnd.choice([(2, 3), (3, 2), (6, 1), (1, 6)]))  # a grid of degrees (inputs given as a mesh)
    return batch


def run(ctx):
    fl = import_library()
    ncons = ctx.scale(1000, 60_000)
    ctx.rule = (
        f"every Rule.trigger call observed. Workload: {ncons} consequents with 1-3 conclusions over 1-3 output variables, 0-2 hedges per conclusion, "
        "optional `with w`, enabled/disabled rules and variables; rule degrees forced through a stub (0, 1, partial, NaN, +-inf; scalar and "
        "batch); every permutation of the conclusions re-run on a cleared engine (the multiset contributed to each variable must not change). "
        "distinct_nontrivial = distinct (consequent, degree, flags) with several conclusions of which an earlier one is hedged"
    )
    ctx.assumptions += ["hedges are applied nearest-the-term first, as the rule grammar (C06) states", "bit-exact comparison; hedge.hedge is the library's own (C05)"]
    funcs = {"Consequent.modify": fl.Consequent.modify, "Consequent.load": fl.Consequent.load, "Rule.trigger": fl.Rule.trigger, "Activated.degree.setter": plain_function(fl.Activated, "degree")}
    ctx.excuse = lambda mechanism, observed, note: excusable(observed)
    with Reach(funcs) as reach, Probe() as probe:
        mon = ConsequentMonitor(ctx, fl)
        mon.install(probe)
        for i, rnd in ctx.cases("consequents", ncons):
            engine, specs = make_engine(fl, rnd)
            concl = [E.gen_prop(rnd, rnd.choice(specs), max_hedges=2, allow_any=False) for _ in range(rnd.randint(1, 3))]
            w = E.gen_weight(rnd, 3)
            implication = getattr(fl, rnd.choice(N.TNORMS))()
            enabled = rnd.random() > 0.15
            degs = [degrees(rnd) for _ in range(3)]
            results = {}
            perms = list(itertools.permutations(range(len(concl))))
            for perm in perms:
                text = "if in0 is t then " + " and ".join(E.prop_text(concl[k]) for k in perm) + E.weight_text(w, 3)
                try:
                    rule = E.make_rule(fl, rnd, text, engine)
                except Exception as ex:
                    ctx.violation(f"a grammatical consequent is rejected ({type(ex).__name__})", {"rule": text}, "loaded", repr(ex)[:200])
                    break
                rule.enabled = enabled
                target = engine
                if i % 4 == 0:
                    # the rule as it arrives in a duplicate of its engine: it concludes on the duplicate's variables
                    how = ("copy", "deepcopy")[(i // 4) % 2]
                    engine.rule_blocks[:] = [fl.RuleBlock("rb", rules=[rule])]
                    target = engine.copy() if how == "copy" else copy.deepcopy(engine)
                    rule = target.rule_blocks[0].rules[0]
                    engine.rule_blocks.clear()
                    ctx.hit("route:rule of a duplicated engine (" + how + ")")
                mon.engine_of = {id(rule): target}
                envname = ENVIRONMENTS[(i // 9) % len(ENVIRONMENTS)] if i % 9 == 4 else None
                for di, d in enumerate(degs):
                    for ov in engine.output_variables + (target.output_variables if target is not engine else []):
                        ov.fuzzy.clear()
                    rule.activation_degree = fl.scalar(d)  # stub antecedent degree
                    try:
                        with hostile(fl, envname, ctx):
                            rule.trigger(implication)
                    except Exception as ex:
                        ctx.violation(f"trigger raised {type(ex).__name__} on a loaded rule", {"rule": text, "degree": d}, "no error", repr(ex)[:200])
                        continue
                    got = {ov.name: sorted((a.term.name, tuple(np.asarray(a.degree, dtype=float).ravel().tolist())) for a in ov.fuzzy.terms) for ov in target.output_variables}
                    if di == 1 and target.output_variables:
                        # an output variable is switched off / on after the rule has been triggered: the next trigger goes by the
                        # flag as it is now
                        flipped = rnd.choice(target.output_variables)
                        flipped.enabled = not flipped.enabled
                        for ov in target.output_variables:
                            ov.fuzzy.clear()
                        try:
                            rule.trigger(implication)
                        except Exception:
                            pass
                        flipped.enabled = not flipped.enabled
                        ctx.hit("event:variable enabled flag changed between two triggers of a loaded rule")
                    if di == 0:
                        # the same rule triggered again, now under another implication operator (the block was reconfigured) and
                        # without clearing the fuzzy outputs: new activations, carrying the new operator, are added to the old ones
                        other = getattr(fl, rnd.choice([n for n in N.TNORMS if n != type(implication).__name__]))()
                        before_ids = {id(a) for ov in target.output_variables for a in ov.fuzzy.terms}
                        try:
                            rule.trigger(other)
                        except Exception:
                            pass
                        ctx.hit("event:triggered again under another implication operator")
                        for ov in target.output_variables:
                            seen = set()
                            for a in ov.fuzzy.terms:
                                if id(a) in seen:
                                    ctx.violation("the same activated-term object is added twice to a fuzzy output", {"rule": text, "variable": ov.name}, "distinct objects", a.term.name)
                                    break
                                seen.add(id(a))
                        del before_ids
                    key = di
                    if key in results and results[key] != got:
                        ctx.violation("reordering the conclusions of a rule changes what they contribute", {"rule": text, "degree": d, "order": list(perm)}, results[key], got)
                    results.setdefault(key, got)
                    ctx.hit("law:permutation")
                    ctx.evaluated()
            if i % 3 == 1 and engine.output_variables:
                # a concluded term, or a whole output variable, is replaced by a new object of the same name (same number of terms)
                # and the rule is loaded again: its conclusions are about the objects the engine holds now
                text = "if in0 is t then " + " and ".join(E.prop_text(c) for c in concl) + E.weight_text(w, 3)
                try:
                    rule = E.make_rule(fl, rnd, text, engine)
                    k = rnd.randrange(len(engine.output_variables))
                    if rnd.random() < 0.5:
                        old = engine.output_variables[k]
                        engine.output_variables[k] = fl.OutputVariable(old.name, old.description, old.enabled, old.minimum, old.maximum, old.lock_range, old.lock_previous, old.default_value, old.aggregation, old.defuzzifier, [copy.copy(t) for t in old.terms])
                    else:
                        ov = engine.output_variables[k]
                        j = rnd.randrange(len(ov.terms))
                        ov.terms[j] = copy.copy(ov.terms[j])
                    for how in range(2):
                        if how == 0:
                            rule.load(engine)
                        else:
                            rule = fl.Rule.create(text, engine)  # and a new rule object, loaded for the first time
                        mon.engine_of = {id(rule): engine}
                        for ov in engine.output_variables:
                            ov.fuzzy.clear()
                        rule.activation_degree = fl.scalar(rnd.choice([0.5, 1.0, 0.25]))
                        rule.trigger(implication)
                    ctx.hit("event:a concluded term or variable is replaced by a same-named object and the rule loaded again")
                except Exception as ex:
                    ctx.violation(f"reloading a rule after a same-named replacement raised {type(ex).__name__}", {"rule": text}, "no error", repr(ex)[:200])
            if i % 4 == 2 and engine.output_variables:
                # the rule, loaded for this engine, is handed to another engine of the same description (new variable and term
                # objects) through a rule block: it is loaded for that engine now and concludes about its variables
                text = "if in0 is t then " + " and ".join(E.prop_text(c) for c in concl) + E.weight_text(w, 3)
                try:
                    rule = fl.Rule.create(text, engine)
                    with fl.settings.context(decimals=17):
                        other = fl.FllImporter().from_string(fl.FllExporter().to_string(engine))
                    for a, b in zip(engine.output_variables, other.output_variables):
                        b.enabled = a.enabled
                    if i % 8 == 2:
                        other.rule_blocks[:] = [fl.RuleBlock("moved", rules=[rule])]
                        other.rule_blocks[0].load_rules(other)
                    else:
                        other = fl.Engine(other.name, input_variables=other.input_variables, output_variables=other.output_variables, rule_blocks=[fl.RuleBlock("moved", rules=[rule])])
                    mon.engine_of = {id(rule): other}
                    rule.activation_degree = fl.scalar(rnd.choice([0.5, 1.0, 0.25]))
                    rule.trigger(implication)
                    ctx.hit("event:a loaded rule is handed to another engine through a rule block")
                except Exception as ex:
                    ctx.violation(f"handing a loaded rule to another engine raised {type(ex).__name__}", {"rule": text}, "no error", repr(ex)[:200])
            if i % 4 == 3 and engine.output_variables:
                # a consequent assembled by hand from propositions that were made from one list of hedges; one of them is then edited:
                # each conclusion has its own hedges
                try:
                    common = [fl.Very()] if i % 8 == 3 else [fl.Somewhat(), fl.Very()]
                    names0 = [h.name for h in common]
                    ovs = [ov for ov in engine.output_variables if ov.terms][:2] or engine.output_variables[:1]
                    props = [fl.Proposition(ov, common, ov.terms[0]) for ov in ovs] + [fl.Proposition(ovs[0], common, ovs[0].terms[-1])]
                    rule = fl.Rule.create("if in0 is t then " + " and ".join(f"{p.variable.name} is {' '.join(names0)} {p.term.name}" for p in props), engine)
                    rule.consequent.conclusions = props
                    truth = [(p.variable.name, list(names0), p.term.name) for p in props]
                    mon.api = {id(rule): truth}
                    mon.engine_of = {id(rule): engine}
                    for step in range(2):
                        for ov in engine.output_variables:
                            ov.fuzzy.clear()
                        rule.activation_degree = fl.scalar(rnd.choice([0.5, 0.25, np.array([0.0, 0.3, 1.0])]))
                        rule.trigger(implication)
                        # the first conclusion gets one more hedge: the others keep theirs
                        props[0].hedges.insert(0, fl.Not())
                        truth[0] = (truth[0][0], ["not"] + truth[0][1], truth[0][2])
                    mon.api = {}
                    ctx.hit("event:conclusions made from one list of hedges, one of them edited")
                except Exception as ex:
                    mon.api = {}
                    ctx.hit(f"inconclusive:hand-made consequent: {type(ex).__name__}: {str(ex)[:80]}")
            if i % 5 == 0:
                # a consequent that goes wrong after its first conclusion: the load is rejected and the rule stays out
                bad = "if in0 is t then " + E.prop_text(concl[0]) + rnd.choice([" and nosuchvariable is x", f" and {specs[0]['name']} is nosuchterm", f" and {specs[0]['name']} is", " and", f" and {specs[0]['name']} very"])
                broken = fl.Rule.create(bad)
                try:
                    broken.load(engine)
                    ctx.violation("a consequent that is not grammatical is accepted", {"rule": bad}, "rejected", "loaded")
                except Exception:
                    pass
                mon.rejected = {id(broken)}
                mon.engine_of = {id(broken): engine}
                for ov in engine.output_variables:
                    ov.fuzzy.clear()
                broken.activation_degree = fl.scalar(0.75)
                try:
                    broken.trigger(implication)
                except Exception:
                    pass
                mon.rejected = set()
            if i < 3:
                ctx.sample("consequent", {"rule": text, "rule_enabled": enabled, "degrees": degs, "contributions": results.get(0)})
        # hedges of a user's own class, registered under one name, each object with a setting of its own: a conclusion is
        # modified by its own hedge objects, whatever other conclusions (with equally named hedges) do
        class Power(fl.Hedge):
            def __init__(self, exponent=2.0):
                self.exponent = exponent

            def hedge(self, x):
                return fl.scalar(x) ** self.exponent

        for i, rnd in ctx.cases("user hedges", ctx.scale(60, 1500)):
            engine, specs = make_engine(fl, rnd)
            concl = []
            for _ in range(rnd.randint(2, 3)):
                c = E.gen_prop(rnd, rnd.choice(specs), max_hedges=1, allow_any=False)
                c["hedges"] = rnd.choice([["power"], ["power"], ["very", "power"], ["power", "not"], ["power", "power"]])
                concl.append(c)
            exps = [[rnd.choice([0.5, 2.0, 3.0, 1.5]) for _ in c["hedges"]] for c in concl]
            implication = fl.Minimum()
            manager = fl.FactoryManager()
            manager.hedge.constructors["power"] = Power
            results = {}
            with fl.settings.context(factory_manager=manager):
                for perm in itertools.permutations(range(len(concl))):
                    text = "if in0 is t then " + " and ".join(E.prop_text(concl[k]) for k in perm)
                    try:
                        rule = fl.Rule.create(text, engine)
                    except Exception as ex:
                        ctx.violation(f"a consequent with a registered user hedge is rejected ({type(ex).__name__})", {"rule": text}, "loaded", repr(ex)[:200])
                        break
                    funcs_of = []
                    for pos, k in enumerate(perm):
                        fs = []
                        for hi, (name, hedge) in enumerate(zip(concl[k]["hedges"], rule.consequent.conclusions[pos].hedges)):
                            if name == "power":
                                hedge.exponent = exps[k][hi]
                                fs.append(lambda x, e=exps[k][hi]: np.asarray(x, dtype=float) ** e)
                            else:
                                fs.append(None)
                        funcs_of.append(fs)
                    mon.user_hedges = {id(rule): funcs_of}
                    mon.engine_of = {id(rule): engine}
                    for d in (0.25, 0.5, np.array([0.0, 0.3, 0.9, 1.0])):
                        for ov in engine.output_variables:
                            ov.fuzzy.clear()
                        rule.activation_degree = fl.scalar(d)
                        try:
                            rule.trigger(implication)
                        except Exception as ex:
                            ctx.violation(f"trigger raised {type(ex).__name__} on a loaded rule", {"rule": text, "degree": d}, "no error", repr(ex)[:200])
                            continue
                        got = {ov.name: sorted((a.term.name, tuple(np.asarray(a.degree, dtype=float).ravel().tolist())) for a in ov.fuzzy.terms) for ov in engine.output_variables}
                        key = repr(d)
                        if key in results and results[key] != got:
                            ctx.violation("reordering the conclusions of a rule changes what they contribute", {"rule": text, "degree": d, "order": list(perm)}, results[key], got)
                        results.setdefault(key, got)
                    ctx.hit("workload:conclusions with equally named user hedges of different settings")
            mon.user_hedges = {}
        probe.report(ctx)
        reach.report(ctx)
    ctx.require("event:a loaded rule is handed to another engine through a rule block", "event:conclusions made from one list of hedges, one of them edited")
    ctx.require("workload:conclusions with equally named user hedges of different settings", "event:a concluded term or variable is replaced by a same-named object and the rule loaded again", *[f"environment:{e}" for e in ENVIRONMENTS])
    ctx.require("hook:Rule.trigger", "hook:Consequent.modify", "hook:Activated.degree.setter", "compare:appended terms", "law:permutation", "piece:disabled rule", "piece:conclusion on a disabled variable", "piece:hedged conclusion", "piece:hedge on an earlier conclusion of several", "piece:rule whose load was rejected", "event:triggered again under another implication operator", "event:variable enabled flag changed between two triggers of a loaded rule", "degree:batch", "degree:grid", "route:rule of a duplicated engine (copy)", "route:rule of a duplicated engine (deepcopy)", "degree:nan", "degree:inf", "degree:zero", "degree:partial")


def passive(ctx, fl, probe):
    """attach this property's always-on monitor to a foreign workload (the repository's test-suite, see vf/pytest_plugin.py)"""
    mon = ConsequentMonitor(ctx, fl)
    mon.install(probe)
    return None
