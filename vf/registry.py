"""Which properties are claimed, at what level, decided by what."""
ALL = [f"C{n:02d}" for n in range(1, 21)]
CHECKS = {
    "C04": dict(
        level="exploration",
        technique="runtime monitor on Norm.compute (scalar reference formulas) + offline law checker over the recorded (a,b)->result table",
        text="Every observed Norm.compute element is compared with an independent scalar formula and the norm laws are checked over the "
        "recorded call table; the dyadic grid (pairs and triples) is enumerated exhaustively, random doubles are sampled. Held on the "
        "observed executions only.",
        note="tolerance 0 on exact-arithmetic norms over the dyadic grid, 1e-12 elsewhere, conditioning-aware term for HamacherSum; numpy ufunc arithmetic trusted",
    ),
    "C05": dict(
        level="exploration",
        technique="runtime monitor on Hedge.hedge (scalar reference formulas) + offline relation checker over the recorded (hedge,x)->y table + nested monitored calls for inverse pairs",
        text="Every observed Hedge.hedge element is compared with an independent scalar formula; range, end points, (anti)monotonicity, "
        "very<=x<=somewhat and the inverse pairs are checked over the recorded table; the dyadic grid is enumerated exhaustively, random "
        "doubles and the neighbours of 0.5 are sampled. Held on the observed executions only.",
        note="formula tolerance 1e-15, inverse pairs 1e-12 with a conditioning-aware term for seldom(extremely x) next to 1; x < 2^-500 excluded from compositions that square first",
    ),
    "C12": dict(
        level="fault_enumeration",
        technique="shadow state machine attached to OutputVariable.defuzzify/clear and every Defuzzifier.defuzzify (raw value captured at return), exact comparison after every call; scripted defuzzifier with injected failures",
        text="A per-row reference cascade follows every output variable and judges value and previous value after every defuzzification, "
        "including calls whose defuzzifier raises (state must be unchanged). Sequences of defuzzified values up to length L are "
        "enumerated under every split into calls/batches, all 12 settings, 4 result forms, a failure at every call index and clear() "
        "between calls; real engines add the real defuzzifiers' return types.",
        note="raw defuzzified value = the object returned by Defuzzifier.defuzzify, copied at return; exact comparison",
    ),
    "C20": dict(
        level="fault_enumeration",
        technique="observing wrapper around Settings.context (snapshots of vars(settings) at __enter__/__exit__) compared with a stack model; programs of nested contexts with exceptions injected at every level",
        text="Every context entry and exit in the process is observed: named keys must take the given values inside and be restored at "
        "exit (normal or exceptional), unnamed keys must not be touched by entry or exit; Op.str, Op.is_close and scalar() are probed "
        "against the model inside and outside. Depth-2 nestings over all single/double key subsets and exception placements are "
        "enumerated, deeper programs are random.",
        note="restored = identical object or equal value of the same type; only vars(settings) is observed",
    ),
    "C03": dict(
        level="exploration",
        technique="runtime monitor on Term.membership of the 20 shape terms + Constant (scalar closed-form reference models, element-wise) + offline monotonicity checker over recorded points",
        text="Every observed membership element of a validly parameterised shape term is compared with a scalar closed form written from the "
        "docstrings, and checked for range, NaN-iff-NaN, shape and array-vs-scalar agreement; workloads aim at every breakpoint and its two "
        "floating-point neighbours, +-inf and NaN, in float/0-d/1-D/2-D form; every piece of every definition must be reached or the run "
        "is inconclusive. Held on the observed executions only.",
        note="tolerance 1e-12 (Arc/SemiEllipse: conditioning-aware); invalid/default parameterisations are out of domain; SigmoidDifference read as h|a-b|",
    ),
    "C08": dict(
        level="exploration",
        technique="trace monitor on Activation.activate (7 classes) recording Rule.deactivate/activate_with/trigger and Consequent.modify events; offline checker against a scalar selection model",
        text="For every observed block activation the event trace, the triggered flags, the final degrees and the appended fuzzy terms are "
        "compared with the selection the definition prescribes for the observed degrees; blocks of up to 3 (quick) / 4 (thorough) rules "
        "are enumerated exhaustively over a degree alphabet with ties and zeros, all parameter values and one disabled/unloaded rule in "
        "every position; batches must be rejected by the non-General methods.",
        note="degrees are those returned by Rule.activate_with (their value is C06's business; in the constructed blocks they are also checked against weight x input); trigger events of disabled rules are not observable effects and are ignored",
    ),
    "C09": dict(
        level="exploration",
        technique="runtime monitor on IntegralDefuzzifier.defuzzify (5 classes) and Op.midpoints; scalar re-computation of each definition from memberships sampled on sets rebuilt row by row; metamorphic translation and batch-vs-single checks on monitored calls",
        text="For every observed defuzzification the definition (centroid, bisector with tie mean, smallest/mean/largest of maximum) is recomputed "
        "with scalar loops from the memberships at the monitor's own midpoints, one batch row at a time; range, NaN-iff-all-zero, "
        "SOM<=MOM<=LOM, translation invariance of the centroid and batch==per-set are checked on generated aggregated sets at resolutions 1..1000.",
        note="memberships come from the library's Term.membership on sets with plain float degrees (C03/C04 trusted); SOM/LOM exact, others 1e-11 x scale, near-ties (1e-12) among candidate points are counted ambiguous",
    ),
    "C10": dict(
        level="exploration",
        technique="runtime monitors on WeightedAverage/WeightedSum.defuzzify, Aggregated.grouped_terms and activation_degree with a scalar grouped-sum model; metamorphic zero-degree insertion",
        text="Every observed weighted defuzzification is recomputed row by row: grouping by term name in first-seen order, degrees folded with "
        "the scalar formula of the aggregation operator, sum(w z)/sum(w) or sum(w z) with z from the term; NaN-iff-empty, bounds for "
        "constants, kind inference, rejection of mixed kinds and invariance under inserting a zero-degree activation at every position.",
        note="z values come from the library's membership/tsukamoto (C03/C11 trusted); tolerance 1e-12 x magnitude; Tsukamoto degrees above the height are out of domain",
    ),
    "C11": dict(
        level="exploration",
        technique="runtime monitor on Term.tsukamoto (closed-form inverse + round trip through the term's own membership) + offline monotonicity checker over the recorded (term,y)->z table",
        text="Every observed tsukamoto element with y in (0,height) must be finite, agree with the closed-form inverse and map back to y through "
        "the membership function; z must be monotone in y in the term's direction; arrays must equal element-wise calls; the 14 "
        "non-monotonic shape terms, Constant, Linear and Function must refuse.",
        note="x-space 1e-9 of the span and round trip 1e-9*h, with conditioning-aware terms for Arc; finiteness only required where the real inverse is below 1e300",
    ),
    "C01": dict(
        level="exploration",
        technique="runtime monitor on Engine.process recomputing the pipeline with a wiring model (own rule-text parser, evaluation order, contribution lists, aggregation fold, cascade) over library leaves; bit-exact comparison of rule degrees, fuzzy outputs and values; element-wise monitors on Activated/Aggregated.membership",
        text="After every observed process() on a ready engine the rule degrees, every fuzzy output (term identity, degree, implication, "
        "order) and every output value are compared bit for bit with an independently wired pipeline; generated engines cover all "
        "operators, defuzzifiers, activation methods, flags, weights, hedges, nested antecedents and output variables in antecedents, over "
        "scalar rows and batches including breakpoints, +-inf and NaN; the shipped examples run under the same monitor.",
        note="leaves are the library's (judged by C03/C04/C05/C09/C10); blocks with a non-General method and an output variable in an antecedent, duplicate term names, Function terms over output values and not-ready engines are out of domain",
    ),
    "C06": dict(
        level="exploration",
        technique="runtime monitors on Rule.activate_with and Antecedent.load compared with the generator's expression tree (ground truth of the printed text); own recursive-descent parser as fall-back; wrong-reading discriminators for non-triviality",
        text="For every observed activation the degree must equal weight x the value of the expression tree the text was printed from, and the "
        "loaded tree's postfix must equal the tree's; texts vary parentheses and spacing; all 63 operator pairs are cycled; a case counts as "
        "non-trivial only if a wrong reading (swapped precedence, right associativity, hedge order) would give a different number.",
        note="leaves are the library's (C03/C04/C05); bit-exact; `any` generated last and never after `not`",
    ),
    "C07": dict(
        level="exploration",
        technique="runtime monitor on Rule.trigger (before/after snapshots of the concluded fuzzy outputs, exactly-once/conservation check against the consequent) + Activated.degree setter hook + permutation metamorphic re-runs",
        text="For every observed trigger the terms appended to each fuzzy output must be exactly one per conclusion on an enabled variable, "
        "carrying the concluded term, the block's implication and nan_to_num(own hedges(rule degree)); nothing for disabled rules or "
        "variables; all permutations of the conclusions must contribute the same multisets. Degrees are forced through a stub including "
        "0, 1, NaN, +-inf and batches.",
        note="hedge.hedge is the library's (C05); hedges applied nearest-the-term first; bit-exact",
    ),
    "C02": dict(
        level="exploration",
        technique="shadow-replay monitor on Engine.process: deep copy at entry, the same rows replayed one by one as Python floats on the copy, exact differential comparison of values, fuzzy outputs and exceptions; monitor on the Engine.input_values setter/getter",
        text="Every observed batch call is replayed row by row in float mode from the same starting state and compared exactly (output "
        "values incl. lock-previous/default/lock-range carry-over, activated degrees per row, raised exceptions in either mode, "
        "readability of Engine.output_values); histories of consecutive batches with NaN/inf rows in all positions, both ways of setting a "
        "batch, all defuzzifiers and lock settings, plus the shipped examples.",
        note="the oracle is the library itself in float mode on a deep copy (C13 judges copies); General activation only, as the property says",
    ),
    "C13": dict(
        level="exploration",
        technique="runtime monitors on Engine.process/restart/copy: differential comparison with an engine freshly rebuilt from the generator's spec, object-graph walker for shared mutable state, reference-closure check at quiescent points; random operation sequences",
        text="After every observed process() (lock-previous off) the enabled outputs and fuzzy outputs must equal those of a freshly built engine "
        "on the same inputs; after restart() the engine must look like a fresh one; after copy() no mutable object may be reachable from "
        "both engines, all references of the copy must stay inside it, and edits of one side must not show on the other; sequences of "
        "set-inputs/process/restart/copy/edit/toggle operations are random.",
        note="fresh engines are rebuilt from the generator's spec plus the lineage's edits; bit-exact; Function formulas over inputs only",
    ),
    "C17": dict(
        level="exploration",
        technique="runtime monitors on Function.load/membership/evaluate compared with the generator's typed expression tree (own operator table and meanings; own precedence-climbing parser as fall-back) and with an independent RPN machine run on the loaded tree's postfix; ill-formed variants with one injected error",
        text="Every observed formula evaluation is compared, element by element, with the value of the expression tree the text was printed from "
        "under the documented operator table, and with an independent stack evaluation of the postfix of the tree the library built; "
        "formulas cover all 13 operators and 34 functions with minimal/redundant parentheses and tight/loose spacing, scalar and array "
        "values incl. NaN/inf; single-error ill-formed variants must be rejected at load.",
        note="elementary functions are numpy's ufuncs in the oracle too (independence is structural); 1e-12 fall-back; min/max with NaN or signed zeros and round on a half are unspecified and skipped",
    ),
    "C19": dict(
        level="exploration",
        technique="runtime monitors on Engine.is_ready (flag + error list) and Engine.process (return/raise) with a per-engine verdict table; operator-removal lattice over generated engines with needed-operator analysis from the spec; hooks on the four raise sites",
        text="Every process() that follows a `ready` verdict on the same configuration with finite inputs must not raise, and every missing "
        "operator that the generator knows to be needed must appear in the error list; all subsets (sampled above a cap in the quick tier) "
        "of {conjunction, disjunction, implication per block; aggregation, defuzzifier per output} are removed from valid engines.",
        note="needed operators are derived from the generator's rule trees and defuzzifier kinds; all components enabled in this workload; over-reporting is not a violation",
    ),
    "C18": dict(
        level="exploration",
        technique="runtime monitors on FldExporter.to_string_from_scope/to_string_from_reader (deep copy at entry) with an offline checker of the returned text: own integer-root grid enumeration + row-by-row float replay on the restarted copy, text equality at the configured decimals",
        text="Every observed dataset export is checked line by line: header, number of rows (v^n for each variable, k^n with the integer root "
        "for all variables), each row's inputs against the monitor's own lexicographic grid and each row's outputs against a float-mode "
        "replay on a restarted copy; sizes include every perfect square/cube/4th power up to 2000 and its neighbours, 1-4 inputs, all "
        "switches, separators and decimals; reader exports with comments, blank and skipped lines.",
        note="batch == float is C02's business; inputs one unit in the last place away are counted ambiguous; long tables are replayed on 96 sampled rows when lock-previous is off",
    ),
    "C14": dict(
        level="exploration",
        technique="runtime monitors on FllExporter.to_string(engine) and FllImporter.from_string: re-import/re-export of every observed export (text equality + structural digest within half a unit of the last decimal), normalisation fixed point of every accepted text, bit-identical outputs on grid-representable engines",
        text="Every observed engine export is imported and exported again (texts must be equal, structures must agree), every observed "
        "accepted import must normalise to a fixed point in one cycle, and engines whose parameters lie on the decimals grid must compute "
        "bit-identical outputs after the round trip; generated engines cover every term, norm, defuzzifier and activation method with "
        "parameters at decimals 1..9, on and off the grid, plus reformatted/mutated texts and the shipped examples.",
        note="recorded finding: Rule.enabled has no FLL representation (printed as KNOWN-FINDING; identical outputs are not required when a rule is disabled); heights/weights within atol of 1 are written as 1",
    ),
    "C15": dict(
        level="exploration",
        technique="runtime monitor on PythonExporter.to_string executing the produced code in a fresh namespace (eval / exec + instantiation) and comparing representation, FLL export and structural digest; differential output check",
        text="Every observed Python export (engines and each kind of component; plain and encapsulated; aliases 'fl', '', '*', custom; "
        "unformatted and black-formatted) is executed after the library's import statement and the reconstructed object must have the same "
        "Python representation, FLL export and structure, and compute bit-identical outputs; parameters are arbitrary doubles, +-inf, NaN, "
        "descriptions contain quotes and backslashes.",
        note="recorded finding: Rule.enabled is not part of Rule.create('...'); rule weights are compared at the configured decimals because rules travel as text",
    ),
    "C16": dict(
        level="exploration",
        technique="runtime monitors classifying every exit of Rule.parse/load, Antecedent.load, Consequent.load, RuleBlock.load_rules and FllImporter.from_string (exception class, loaded flag, exportability/evaluability of acceptances); token-level mutation workload and single-error injector",
        text="Every observed rejection must be a SyntaxError, ValueError or KeyError and leave the rule unloaded; every acceptance must be "
        "exportable and the rule evaluable; thousands of token-level mutants of valid rules and FLL documents are fed, and rules with "
        "exactly one injected error of each listed class must never be accepted.",
        note="recorded finding: parameterless Discrete/Linear terms are accepted by the importer and raise ValueError at evaluation; ungrammatical acceptances outside the listed classes are counted, not judged",
    ),
}
NOT_APPLICABLE = [{"property_id": p, "reason": "check not built yet (see DESIGN.md §4)"} for p in ALL if p not in CHECKS]
