"""C13 — Processing is history-free; restart and copy give clean independent engines.

Deciding step: monitors on Engine.process / restart / copy.  After every process() (lock-previous off) the outputs are
compared with a freshly built engine given the same inputs; after restart() the engine is compared with a fresh one
(values, fuzzy outputs, loaded rules, reference closure); after copy() an object-graph walker checks that no mutable
object is reachable from both engines and that every reference of the copy stays inside the copy.  The workload
drives random operation sequences, including edits of one side that must not show on the other."""
from __future__ import annotations

import copy
import math

import numpy as np

from ..core import describe, import_library
from ..gen import engines as E
from ..env import ENVIRONMENTS, Held, excusable, hostile, observe
from ..probe import Probe, Reach
from ..ref import wiring as W
from . import c08

WORKERS = {"quick": 1, "thorough": 16}
nan = math.nan
IMMUTABLE = (int, float, str, bool, bytes, type(None), complex, type, np.floating, np.integer, np.bool_)


def walk(root, fl):
    """ids -> object for every mutable object reachable from root (attributes, list/dict/tuple members, ndarrays)"""
    import enum
    import types

    seen, todo = {}, [root]
    while todo:
        o = todo.pop()
        if isinstance(o, IMMUTABLE) or isinstance(o, (enum.Enum, types.FunctionType, types.BuiltinFunctionType, types.MethodType, types.ModuleType, np.ufunc)):
            continue
        if id(o) in seen:
            continue
        if isinstance(o, (list, tuple, set, frozenset)):
            if not isinstance(o, (tuple, frozenset)):
                seen[id(o)] = o
            todo.extend(o)
        elif isinstance(o, dict):
            seen[id(o)] = o
            todo.extend(o.values())
        elif isinstance(o, np.ndarray):
            seen[id(o)] = o
        elif hasattr(o, "__dict__"):
            seen[id(o)] = o
            todo.extend(vars(o).values())
    return seen


def closure_violations(engine, fl):
    """references that must stay inside the owning engine"""
    bad = []
    variables = {id(v) for v in engine.variables}
    terms = {id(t) for v in engine.variables for t in v.terms}

    def props(node):
        if isinstance(node, fl.Proposition):
            yield node
        elif isinstance(node, fl.Operator):
            yield from props(node.left)
            yield from props(node.right)

    for rb in engine.rule_blocks:
        for rule in rb.rules:
            plist = list(props(rule.antecedent.expression)) + list(rule.consequent.conclusions)
            for p in plist:
                if p.variable is not None and id(p.variable) not in variables:
                    bad.append(f"rule '{rule.text}': proposition variable '{p.variable.name}' is not a variable of this engine")
                if p.term is not None and id(p.term) not in terms:
                    bad.append(f"rule '{rule.text}': proposition term '{p.term.name}' is not a term of this engine")
    for v in engine.variables:
        for t in v.terms:
            if isinstance(t, (fl.Linear, fl.Function)) and t.engine is not None and t.engine is not engine:
                bad.append(f"term '{t.name}' of '{v.name}' references another engine")
    return bad


def outputs_of(engine):
    return [np.array(ov.value, dtype=float, copy=True) for ov in engine.output_variables]


class HistoryMonitor:
    """needs a way to build a fresh engine equal to the observed one: the workload registers `fresh` factories keyed by
    engine identity (lineage), so passive use only checks restart/copy structure."""

    def __init__(self, ctx, fl):
        self.ctx, self.fl = ctx, fl
        self.fresh = {}  # id(engine) -> (factory, edits)  ; edits = list of functions to replay on a fresh engine

    def install(self, probe):
        fl = self.fl
        probe.wrap(fl.Engine, "process", before=self._before_process, after=self._after_process)
        probe.wrap(fl.Engine, "restart", after=self._after_restart)
        probe.wrap(fl.Engine, "copy", after=self._after_copy)

    def fresh_engine(self, engine):
        entry = self.fresh.get(id(engine))
        if entry is None:
            return None
        factory, edits = entry
        e = factory()
        for edit in edits:
            edit(e)
        return e

    def _before_process(self, args, kwargs):
        return [np.array(v.value, copy=True) if isinstance(v.value, np.ndarray) else v.value for v in args[0].input_variables]

    def _after_process(self, args, kwargs, token, result, exc):
        ctx, engine = self.ctx, args[0]
        if exc is not None:
            ctx.hit("event:process raised")
            return
        # the inputs of a step are read, not written: the arrays the variables were given hold what they held
        for v, before in zip(engine.input_variables, token or []):
            if isinstance(before, np.ndarray) and isinstance(v.value, np.ndarray) and before.dtype.kind in "fiub":
                ctx.hit("compare:input values left as given")
                if before.shape != v.value.shape or not W.same(np.asarray(v.value, dtype=float), np.asarray(before, dtype=float)):
                    ctx.violation("a processing step changes the input values it was given", {"engine": describe(engine), "variable": v.name}, before, v.value)
                    return
        if any(ov.lock_previous for ov in engine.output_variables):
            ctx.hit("out_of_domain:lock-previous is on")
            return
        fresh = self.fresh_engine(engine)
        if fresh is None:
            ctx.hit("event:process on an unregistered engine")
            return
        ctx.evaluated()
        for a, b in zip(engine.input_variables, fresh.input_variables):
            b.value = np.array(a.value, copy=True) if isinstance(a.value, np.ndarray) else a.value
        try:
            fresh.process()
        except Exception as ex:
            ctx.violation(f"a fresh engine raises {type(ex).__name__} on inputs the used engine accepts", {"engine": describe(engine)}, "no error", repr(ex)[:200])
            return
        ctx.hit("compare:process vs fresh engine")
        case = {"engine": describe(engine), "inputs": [v.value for v in engine.input_variables]}
        for ov, fv in zip(engine.output_variables, fresh.output_variables):
            # (a disabled output variable is left untouched by processing - C12 - so its value is not an output of the step)
            if ov.enabled and not W.agree(ctx, ov.value, fv.value, "output value"):
                ctx.violation("outputs of a processing step differ from a freshly built engine given the same inputs (history leaks)", dict(case, variable=ov.name), fv.value, ov.value)
                return
            if len(ov.fuzzy.terms) != len(fv.fuzzy.terms) or any(a.term.name != b.term.name or not W.same(a.degree, b.degree) for a, b in zip(ov.fuzzy.terms, fv.fuzzy.terms)):
                ctx.violation("fuzzy output of a processing step differs from a freshly built engine (history leaks)", dict(case, variable=ov.name), fv.fuzzy.parameters(), ov.fuzzy.parameters())
                return
        # what the step leaves on the rules (degree, triggered) is part of "no trace of earlier steps" too
        for rb, fb in zip(engine.rule_blocks, fresh.rule_blocks):
            if not rb.enabled:
                continue  # a block that is switched off is not processed: its rules are not part of the step
            for r, f in zip(rb.rules, fb.rules):
                ctx.hit("compare:rule state vs fresh engine")
                if bool(np.all(r.triggered)) != bool(np.all(f.triggered)) or not W.agree(ctx, r.activation_degree, f.activation_degree, "rule degree"):
                    ctx.violation("a rule's degree / triggered flag after a processing step differs from a freshly built engine given the same inputs (history leaks)", dict(case, rule=r.text, block=rb.name), [f.activation_degree, f.triggered], [r.activation_degree, r.triggered])
                    return
        ctx.nontrivial("process", describe(engine), tuple(tuple(np.atleast_1d(np.asarray(v.value, dtype=float)).tolist()) for v in engine.input_variables))

    def _after_restart(self, args, kwargs, token, result, exc):
        ctx, fl, engine = self.ctx, self.fl, args[0]
        ctx.evaluated()
        if exc is not None:
            ctx.hit(f"event:restart raised {type(exc).__name__}")
            return
        ctx.hit("compare:restart")
        case = {"engine": engine.name}
        for v in engine.input_variables:
            if not (np.ndim(v.value) == 0 and math.isnan(float(v.value))):
                ctx.violation("restart(): an input value is not NaN", dict(case, variable=v.name), nan, v.value)
        for ov in engine.output_variables:
            if not (np.ndim(ov.value) == 0 and math.isnan(float(ov.value)) and math.isnan(float(ov.previous_value))):
                ctx.violation("restart(): an output value or previous value is not cleared", dict(case, variable=ov.name), [nan, nan], [ov.value, ov.previous_value])
            if ov.fuzzy.terms:
                ctx.violation("restart(): a fuzzy output is not empty", dict(case, variable=ov.name), 0, len(ov.fuzzy.terms))
        for rb in engine.rule_blocks:
            for rule in rb.rules:
                if not rule.is_loaded():
                    ctx.violation("restart(): a rule is not loaded", dict(case, rule=rule.text), True, False)
                if float(np.asarray(rule.activation_degree)) != 0.0 or bool(np.asarray(rule.triggered)):
                    ctx.violation("restart(): a rule keeps its activation degree or triggered flag", dict(case, rule=rule.text), [0.0, False], [rule.activation_degree, rule.triggered])
        for msg in closure_violations(engine, fl):
            ctx.violation("restart(): a reference points outside the engine", dict(case, detail=msg), "inside", msg)
        fresh = self.fresh_engine(engine)
        if fresh is not None and str(fresh) != describe(engine):
            ctx.violation("restart(): the engine's description differs from a fresh engine", case, str(fresh), describe(engine))

    def _after_copy(self, args, kwargs, token, result, exc):
        ctx, fl, engine = self.ctx, self.fl, args[0]
        ctx.evaluated()
        if exc is not None:
            ctx.violation(f"copy() raises {type(exc).__name__}", {"engine": describe(engine)}, "a copy", repr(exc)[:200])
            return
        dup = result
        ctx.hit("compare:copy")
        if id(engine) in self.fresh:
            factory, edits = self.fresh[id(engine)]
            self.fresh[id(dup)] = (factory, list(edits))
        a, b = walk(engine, fl), walk(dup, fl)
        shared = [o for i, o in a.items() if i in b]
        # registries that are shared by design: factory prototypes hold functions only; loggers; the settings singleton
        shared = [o for o in shared if not isinstance(o, (fl.library.Settings,)) and type(o).__module__ != "logging"]
        ctx.hit("graph:objects walked", len(a))
        # arrays are separate objects and separate memory (a view of the original's data is as shared as the object itself)
        mine = [o for o in a.values() if isinstance(o, np.ndarray) and o.size]
        theirs = [o for o in b.values() if isinstance(o, np.ndarray) and o.size]
        for x in mine:
            for y in theirs:
                if x is not y and np.may_share_memory(x, y) and np.shares_memory(x, y):
                    shared.append(x)
                    break
        if any(isinstance(o, np.ndarray) and o.size > 8192 for o in mine):
            ctx.hit("event:copy of an engine holding arrays of more than 8192 values")
        if shared:
            ctx.violation("copy(): a mutable object is reachable from both the original and the copy", {"engine": engine.name, "shared": [f"{type(o).__name__}: {str(o)[:80]}" for o in shared[:5]]}, 0, len(shared))
        # (an original whose rules hold a term that was since replaced in its variable is copied as it is: the copy's rules hold
        # the copy of that detached term - sharing with the original is what the walk above looks for)
        if not closure_violations(engine, fl):
            for msg in closure_violations(dup, fl):
                ctx.violation("copy(): a reference of the copy points outside the copy", {"engine": engine.name, "detail": msg}, "inside", msg)
        if str(dup) != describe(engine) or repr(dup) != repr(engine):
            ctx.violation("copy(): the copy's FLL/Python description differs from the original", {"engine": engine.name}, describe(engine), str(dup))
        for ov, cv in zip(engine.output_variables, dup.output_variables):
            if not (W.same(ov.value, cv.value) and W.same(ov.previous_value, cv.previous_value) and len(ov.fuzzy.terms) == len(cv.fuzzy.terms)):
                ctx.violation("copy(): the copy's state differs from the original's", {"engine": engine.name, "variable": ov.name}, [ov.value, ov.previous_value], [cv.value, cv.previous_value])


# ---- workload -------------------------------------------------------------------------------------------------------------


def edits_for(fl, rnd, spec, structural=False):
    """an edit = (description, function(engine)) changing a parameter / weight / operator / flag"""
    choices = []
    iv = rnd.randrange(len(spec["inputs"]))
    ti = rnd.randrange(len(spec["inputs"][iv]["terms"]))
    choices.append(("term height", lambda e, iv=iv, ti=ti: setattr(e.input_variables[iv].terms[ti], "height", 0.5)))
    bi = rnd.randrange(len(spec["blocks"]))
    ri = rnd.randrange(len(spec["blocks"][bi]["rules"]))
    choices.append(("rule weight", lambda e, bi=bi, ri=ri: setattr(e.rule_blocks[bi].rules[ri], "weight", 0.125)))
    choices.append(("conjunction", lambda e, bi=bi: setattr(e.rule_blocks[bi], "conjunction", fl.EinsteinProduct())))
    oi = rnd.randrange(len(spec["outputs"]))
    choices.append(("output range", lambda e, oi=oi: setattr(e.output_variables[oi], "maximum", e.output_variables[oi].maximum + 1.0)))
    choices.append(("rule disabled", lambda e, bi=bi, ri=ri: setattr(e.rule_blocks[bi].rules[ri], "enabled", False)))
    # a term replaced by a new object of the same name (the loaded rules keep the object they were loaded with)
    v = spec["inputs"][iv]
    lo_, hi_ = v["minimum"], v["maximum"]
    name = v["terms"][ti]["name"]
    choices.append(("term object replaced", lambda e, iv=iv, ti=ti: e.input_variables[iv].terms.__setitem__(ti, fl.Triangle(name, lo_, 0.5 * (lo_ + hi_), hi_))))
    # the terms of a weighted output replaced by terms of the other family (same names), then restart(): as good as new
    weighted = [k for k, o in enumerate(spec["outputs"]) if o["kind"] in ("ts", "tsukamoto") and o["defuzzifier"] and o["defuzzifier"].get("type") == "Automatic"]
    if weighted:
        ok = rnd.choice(weighted)
        o = spec["outputs"][ok]

        def swap(e, ok=ok, o=o):
            ov = e.output_variables[ok]
            for k, t in enumerate(list(ov.terms)):
                ov.terms[k] = fl.Ramp(t.name, o["minimum"], o["maximum"]) if o["kind"] == "ts" else fl.Constant(t.name, 0.5 * (o["minimum"] + o["maximum"]))
            e.restart()

        choices.append(("output terms replaced by the other family and restart", swap))
        choices.append(("output terms replaced by the other family and restart", swap))
    if structural:
        choices = [c for c in choices if c[0] in ("term object replaced", "output terms replaced by the other family and restart")]
    return rnd.choice(choices)


def remember_restart(mon, engine):
    """restart() re-binds the rules to the terms the variables hold now: where terms were replaced before, the reconstruction of
    the engine has to restart at the same point of its history of edits"""
    if id(engine) in mon.fresh:
        factory, edits = mon.fresh[id(engine)]
        if edits:
            mon.fresh[id(engine)] = (factory, edits + [lambda e: e.restart()])


def run(ctx):
    fl = import_library()
    nengines = ctx.scale(250, 10000)
    nops = ctx.scale(12, 30)
    ctx.rule = (
        f"every Engine.process/restart/copy call observed. Workload: {nengines} generated engines (lock-previous off; Linear/Function terms and rules "
        f"holding references to the engine) x random sequences of {nops} operations from {{set inputs (float/batch), process, process again, "
        "restart, copy and switch to the copy, edit a parameter/weight/operator of one side and check the other, toggle an enabled flag and "
        "restore it}. distinct_nontrivial = distinct (engine, inputs) process steps compared with a fresh engine"
    )
    ctx.assumptions += ["a fresh engine is rebuilt from the generator's spec (plus the edits applied so far to that lineage)", "bit-exact comparison", "Function formulas range over input variables only (a formula over an output's value is history dependent by design)"]
    funcs = {"Engine.process": fl.Engine.process, "Engine.restart": fl.Engine.restart, "Engine.copy": fl.Engine.copy, "RuleBlock.reload_rules": fl.RuleBlock.reload_rules, "Rule.deactivate": fl.Rule.deactivate, "Linear.update_reference": fl.Linear.update_reference, "Function.update_reference": fl.Function.update_reference}
    ctx.excuse = lambda mechanism, observed, note: excusable(observed)
    held = Held(ctx)
    with Reach(funcs) as reach, Probe() as probe:
        mon = HistoryMonitor(ctx, fl)
        mon.install(probe)
        for i, rnd in ctx.cases("engines", nengines):
            scalar_only = i % 4 == 3  # every activation method; these engines are fed one row at a time
            spec = E.gen_engine(rnd, activations=tuple(c08.METHODS) if scalar_only else ("General",), d=3, kinds=("integral", "ts", "ts", "tsukamoto", "inverse"), resolutions=[2, 5, 10, 37, 100], free_weights=True, share_defuzzifier=True, routes=True, allow_output_antecedent=not scalar_only)
            for o in spec["outputs"]:
                o["lock_previous"] = False
            factory = lambda spec=spec: E.build(fl, spec)  # noqa: E731
            try:
                engine = factory()
            except Exception as ex:
                ctx.hit(f"inconclusive:generated engine does not build: {type(ex).__name__}")
                continue
            mon.fresh = {id(engine): (factory, [])}
            held.clear()
            envname = ENVIRONMENTS[(i // 6) % len(ENVIRONMENTS)] if i % 6 == 2 else None
            keep = [engine]  # keep every engine alive so that ids are not reused
            ops = []
            for _ in range(nops):
                op = rnd.choice(["inputs", "inputs", "refill", "process", "process", "process", "restart", "copy", "edit", "toggle", "unload-restart", "look", "unload-look", "empty batch", "failing step"])
                # what earlier steps handed out (the matrix of output values) stays what it was
                held.check("a later operation: " + op)
                ops.append(op)
                try:
                    if op == "inputs":
                        n = 1 if scalar_only else rnd.choice([1, 1, 1, 3])
                        rows = E.rows(rnd, spec, n)
                        typed = rnd.choice([None, None, None, "int array", "bool array", "python int", "list"])
                        for k, v in enumerate(engine.input_variables):
                            handed = np.array([r[k] for r in rows])
                            v.value = float(rows[0][k]) if n == 1 else handed
                            if n > 1:
                                # the array handed over is the caller's: assigning it (range locked or not) does not rewrite it
                                ctx.hit("compare:array handed to a variable left as it was")
                                if not W.same(handed, np.array([r[k] for r in rows])):
                                    ctx.violation("assigning an array to an input variable rewrites the caller's array", {"variable": v.name, "lock_range": v.lock_range}, [r[k] for r in rows], handed)
                            col = [r[k] for r in rows]
                            if typed and all(math.isfinite(x) for x in col):
                                # values that are not float64 arrays (whole numbers, flags, plain lists): still just input values
                                if typed == "int array":
                                    v.value = np.array([int(round(x)) for x in col], dtype=rnd.choice([np.int64, np.int32]))
                                elif typed == "bool array":
                                    v.value = np.array([x > 0 for x in col])
                                elif typed == "python int":
                                    v.value = int(round(col[0]))
                                else:
                                    v.value = [float(x) for x in col]
                                ctx.hit("input type:" + typed)
                    elif op == "refill":  # the same input arrays, refilled in place (identity-keyed caches would go stale)
                        if not scalar_only and not all(isinstance(v.value, np.ndarray) and v.value.ndim == 1 and v.value.dtype.kind == "f" for v in engine.input_variables):
                            first = E.rows(rnd, spec, 3)
                            if rnd.random() < 0.5:
                                engine.input_values = np.array(first, dtype=float)
                            else:
                                for k, v in enumerate(engine.input_variables):
                                    v.value = np.array([r[k] for r in first], dtype=float)
                            engine.process()
                        for k, v in enumerate(engine.input_variables):
                            if isinstance(v.value, np.ndarray) and v.value.ndim == 1 and not v.lock_range and v.value.flags.writeable:
                                v.value[:] = [r[k] for r in E.rows(rnd, spec, v.value.size)]
                                ctx.hit("event:input arrays refilled in place")
                        engine.process()
                    elif op == "process":
                        with hostile(fl, envname if rnd.random() < 0.5 else None, ctx):
                            engine.process()
                        held.keep("Engine.output_values", engine.output_values)
                    elif op == "empty batch" and not scalar_only:
                        # a batch without rows (an empty selection of a dataset): the engine then holds no rows, and processing it
                        # - once, twice - yields no rows, whatever was processed before
                        engine.input_values = np.empty((0, len(engine.input_variables)))
                        ctx.evaluated()
                        sizes = [int(np.size(v.value)) for v in engine.input_variables]
                        if any(sizes):
                            ctx.violation("after a batch without rows was given to the engine its input variables still hold values", {"engine": describe(engine)}, 0, sizes)
                        engine.process()
                        engine.process()
                        outs = [int(np.size(ov.value)) for ov in engine.output_variables if ov.enabled]
                        # (an output variable that no batch-valued activation reaches holds a single value for the whole batch)
                        if any(k > 1 for k in outs):
                            ctx.violation("processing a batch without rows leaves rows in the output variables (those of an earlier step)", {"engine": describe(engine)}, "no rows", outs)
                        ctx.hit("event:batch without rows processed twice")
                    elif op == "look":
                        # the engine is looked at (printed, exported, asked whether it is ready, ...) between two steps
                        observe(fl, engine, rnd, ctx, None)
                        # ... and the matrix of input values it hands out is worked on by the caller (standardised in place): the
                        # engine's own inputs are what they were
                        m = engine.input_values
                        if isinstance(m, np.ndarray) and m.size and m.flags.writeable and m.dtype.kind == "f":
                            before = [np.array(v.value, dtype=float, copy=True) for v in engine.input_variables]
                            m *= 0.5
                            m -= 1.0
                            ctx.evaluated()
                            ctx.hit("compare:matrix handed out by Engine.input_values worked on by the caller")
                            for v, b in zip(engine.input_variables, before):
                                if not W.same(np.asarray(v.value, dtype=float), b):
                                    ctx.violation("working on the matrix returned by Engine.input_values changes the input values of the engine", {"variable": v.name, "inputs": len(engine.input_variables)}, b, v.value)
                                    v.value = b
                        engine.process()
                    elif op == "failing step" and scalar_only:
                        # a step that fails (a batch handed to a block whose activation method takes one row at a time), caught by
                        # the caller, who carries on row by row: the failed step leaves no trace
                        saved = [v.value for v in engine.input_variables]
                        rows2 = E.rows(rnd, spec, 3)
                        for k, v in enumerate(engine.input_variables):
                            v.value = np.array([r[k] for r in rows2])
                        try:
                            engine.process()
                        except Exception:
                            ctx.hit("event:a step failed and the caller carried on")
                        for v, x in zip(engine.input_variables, E.rows(rnd, spec, 1)[0]):
                            v.value = float(x)
                        engine.process()
                    elif op == "unload-look":
                        # a rule is unloaded by hand (it then takes no part in processing, which is legal) and the engine is looked at
                        blocks = [(bi, ri) for bi, rb in enumerate(engine.rule_blocks) for ri, r in enumerate(rb.rules) if r.is_loaded()]
                        if blocks:
                            bi, ri = rnd.choice(blocks)
                            unload = lambda e, bi=bi, ri=ri: e.rule_blocks[bi].rules[ri].unload()  # noqa: E731
                            factory_t, edits_t = mon.fresh[id(engine)]
                            unload(engine)
                            mon.fresh[id(engine)] = (factory_t, edits_t + [unload])
                            ctx.hit("event:rule unloaded by hand, engine looked at, then processed")
                        observe(fl, engine, rnd, ctx, None, only=["is_ready", rnd.choice(["str(engine)", "fll export", "is_loaded", "rule texts", "infer_type"])])
                        engine.process()
                    elif op == "restart":
                        remember_restart(mon, engine)
                        engine.restart()
                    elif op == "unload-restart":
                        # rules that are unloaded when restart() is called (left over from a rejected load, or unloaded by hand)
                        # are loaded again by it, like those of a freshly built engine
                        for rb in engine.rule_blocks:
                            for rule in rb.rules:
                                if rnd.random() < 0.4:
                                    rule.unload()
                                    ctx.hit("event:rule unloaded before restart")
                        remember_restart(mon, engine)
                        engine.restart()
                    elif op == "copy":
                        if not scalar_only and rnd.random() < 0.06:
                            big = np.array([E.rows(rnd, spec, 8)[j % 8] for j in range(rnd.choice([8193, 10000]))], dtype=float)
                            engine.input_values = big
                            engine.process()
                        dup = engine.copy()
                        keep.append(dup)
                        if rnd.random() < 0.6:
                            engine = dup
                    elif op == "edit" and len(keep) > 1:
                        # edit one engine; every other engine of the lineage must still equal its own fresh reconstruction
                        what, edit = edits_for(fl, rnd, spec)
                        target = rnd.choice(keep)
                        others = [e for e in keep if e is not target]
                        before = [(str(e), repr(e)) for e in others]
                        factory_t, edits_t = mon.fresh[id(target)]
                        mon.fresh[id(target)] = (factory_t, edits_t + [edit])  # (registered first: an edit may itself call restart())
                        edit(target)
                        ctx.hit("compare:edit isolation")
                        ctx.evaluated()
                        for e, (s0, r0) in zip(others, before):
                            if str(e) != s0 or repr(e) != r0:
                                ctx.violation("editing one engine changed its copy/original", {"edit": what}, s0, str(e))
                    elif op == "toggle":
                        group = rnd.choice(["input_variables", "output_variables", "rule_blocks"])
                        idx = rnd.randrange(len(getattr(engine, group)))
                        flip = lambda e, group=group, idx=idx: setattr(getattr(e, group)[idx], "enabled", not getattr(e, group)[idx].enabled)  # noqa: E731
                        factory_t, edits_t = mon.fresh[id(engine)]
                        flip(engine)
                        mon.fresh[id(engine)] = (factory_t, edits_t + [flip])
                        engine.process()
                        flip(engine)  # restore: the toggle must leave no trace
                        mon.fresh[id(engine)] = (factory_t, edits_t)
                        engine.process()
                        ctx.hit("event:toggle and restore")
                except Exception as ex:
                    ctx.hit(f"event:operation raised {type(ex).__name__}")
            if i < 2:
                ctx.sample("sequence", {"fll": str(keep[0])[:1500], "operations": ops})
            mon.fresh = {}
        # directed: the two structural edits followed at once by what they are meant to meet (a copy; further processing)
        # input terms whose membership function hands back its argument (a user's identity term, the formula `x`): processing
        # reads the input arrays, twice gives the same
        class Identity(fl.Term):
            def membership(self, x):
                return x if isinstance(x, np.ndarray) else fl.scalar(x)

        for i, rnd in ctx.cases("terms that hand back their argument", ctx.scale(40, 1000)):
            def make(i=i):
                e = fl.Engine("alias", load=False)
                t = Identity("same") if i % 2 else fl.Function("same", "x")
                e.input_variables = [fl.InputVariable("a", minimum=0.0, maximum=1.0, terms=[t, fl.Ramp("up", 0.0, 1.0)])]
                e.output_variables = [fl.OutputVariable("o", minimum=0.0, maximum=10.0, defuzzifier=fl.WeightedSum(), terms=[fl.Constant("k", 4.0), fl.Constant("m", 8.0)])]
                w = [0.5, 0.25, 0.75][i % 3]
                rules = [fl.Rule.create(f"if a is same then o is k with {w}"), fl.Rule.create("if a is up then o is m with 0.5")]
                e.rule_blocks = [fl.RuleBlock("rb", conjunction=fl.Minimum(), disjunction=fl.Maximum(), implication=fl.Minimum(), activation=fl.General(), rules=rules)]
                if isinstance(t, fl.Function):
                    t.update_reference(e)
                    t.load()
                e.rule_blocks[0].load_rules(e)
                return e

            engine = make()
            mon.fresh = {id(engine): (make, [])}
            arr = np.array([rnd.random() for _ in range(rnd.choice([1, 3, 4]))])
            engine.input_variables[0].value = arr
            try:
                engine.process()
                engine.process()
                dup = engine.copy()
                mon.fresh[id(dup)] = (make, [])
                dup.process()
                engine.input_variables[0].value = np.array(0.5)
                engine.process()
                engine.process()
            except Exception as ex:
                ctx.hit(f"event:operation raised {type(ex).__name__}")
            ctx.hit("workload:input term that hands back its argument")
            mon.fresh = {}
        # Function terms made without a map of their own variables, which are then set item by item: each term has its own map -
        # the original's, its copy's and a freshly built engine's are three maps
        for i, rnd in ctx.cases("substitution variables", ctx.scale(30, 600)):
            def make():
                e = fl.Engine("gains", load=False)
                e.input_variables = [fl.InputVariable("a", minimum=0.0, maximum=1.0, terms=[fl.Ramp("up", 0.0, 1.0)])]
                t = fl.Function("f", "gain * a + offset", e) if i % 2 else fl.Function.create("f", "gain * a + offset", e)
                e.output_variables = [fl.OutputVariable("o", minimum=0.0, maximum=10.0, defuzzifier=fl.WeightedAverage(), terms=[t])]
                e.rule_blocks = [fl.RuleBlock("rb", conjunction=fl.Minimum(), disjunction=fl.Maximum(), implication=fl.Minimum(), activation=fl.General(), rules=[fl.Rule.create("if a is up then o is f")])]
                t.update_reference(e)
                t.load()
                e.rule_blocks[0].load_rules(e)
                return e

            g1, g2 = rnd.choice([2.0, 3.0]), rnd.choice([5.0, 0.5])
            first = make()
            tf = first.output_variables[0].terms[0]
            tf.variables["gain"], tf.variables["offset"] = g1, 1.0
            dup = first.copy() if i % 4 < 2 else copy.deepcopy(first)
            td = dup.output_variables[0].terms[0]
            td.variables["gain"] = g2
            other = make()
            ctx.evaluated()
            ctx.hit("workload:substitution variables set item by item")
            if tf.variables.get("gain") != g1 or td.variables.get("gain") != g2 or "gain" in other.output_variables[0].terms[0].variables:
                ctx.violation("Function terms share their map of substitution variables (original, copy, freshly built engine)", {"set on the original": g1, "set on the copy": g2}, [g1, g2, None], [tf.variables.get("gain"), td.variables.get("gain"), other.output_variables[0].terms[0].variables.get("gain")])
                continue
            x = rnd.choice([0.25, 0.5, 1.0])
            for e_, g in ((first, g1), (dup, g2)):
                e_.input_variables[0].value = x
                try:
                    e_.process()
                    got = float(np.asarray(e_.output_variables[0].value))
                    if not (abs(got - (g * x + 1.0)) <= 1e-12):
                        ctx.violation("an engine and its copy do not compute with their own substitution variables", {"gain": g, "a": x}, g * x + 1.0, got)
                except Exception as ex:
                    ctx.hit(f"event:operation raised {type(ex).__name__}")
        for i, rnd in ctx.cases("structural edits", ctx.scale(80, 4000)):
            spec = E.gen_engine(rnd, activations=("General",), d=3, kinds=("ts", "tsukamoto", "integral"), resolutions=[5, 10], free_weights=True, flags=False, locks=False, allow_output_antecedent=False)
            factory = lambda spec=spec: E.build(fl, spec)  # noqa: E731
            try:
                engine = factory()
            except Exception:
                continue
            mon.fresh = {id(engine): (factory, [])}
            keep = [engine]

            def feed(e):
                for k, v in enumerate(e.input_variables):
                    v.value = float(rows[0][k]) if rnd.random() < 0.5 else np.array([r[k] for r in rows])
                try:
                    e.process()
                except Exception:
                    pass

            rows = E.finite_rows(rnd, spec, 3)
            feed(engine)
            for _ in range(2):
                what, edit = edits_for(fl, rnd, spec, structural=True)
                factory_t, edits_t = mon.fresh[id(engine)]
                mon.fresh[id(engine)] = (factory_t, edits_t + [edit])
                try:
                    edit(engine)
                except Exception as ex:
                    ctx.hit(f"event:operation raised {type(ex).__name__}")
                ctx.hit("edit:" + what)
                rows = E.finite_rows(rnd, spec, 3)
                feed(engine)
                try:
                    dup = engine.copy()
                    keep.append(dup)
                    feed(dup)
                    feed(engine)
                except Exception as ex:
                    ctx.hit(f"event:operation raised {type(ex).__name__}")
            mon.fresh = {}
        probe.report(ctx)
        reach.report(ctx)
    ctx.require("workload:substitution variables set item by item", "compare:matrix handed out by Engine.input_values worked on by the caller", "event:a step failed and the caller carried on")
    ctx.require("event:batch without rows processed twice", "compare:array handed to a variable left as it was", "law:values handed out earlier are left alone")
    ctx.require("workload:input term that hands back its argument", "compare:input values left as given", "event:rule unloaded by hand, engine looked at, then processed", "event:observer between steps", *[f"environment:{e}" for e in ENVIRONMENTS])
    ctx.require("edit:term object replaced", "edit:output terms replaced by the other family and restart")
    ctx.require("hook:Engine.process", "hook:Engine.restart", "hook:Engine.copy", "compare:process vs fresh engine", "compare:rule state vs fresh engine", "event:rule unloaded before restart", "compare:restart", "compare:copy", "event:copy of an engine holding arrays of more than 8192 values", "compare:edit isolation", "graph:objects walked", "event:input arrays refilled in place", "event:toggle and restore", "input type:int array", "input type:bool array", "input type:python int", "input type:list")
