#!/usr/bin/env python3
"""Rewrite the table of behaviour-preserving refactorings in DESIGN.md (§8.6) from benign/*/meta.json."""
import json, re, glob
rows, verdicts = [], {}
for d in sorted(glob.glob("/verif/benign/*/")):
    m = json.load(open(d + "meta.json"))
    clean = lambda s, n: re.sub(r"\s+", " ", (s or "").replace("|", "/"))[:n]
    v = ", ".join(f"{r['check']}:{r['tier']}={r['verdict']}" for r in m.get("ran", []))
    for r in m.get("ran", []):
        verdicts[r["verdict"]] = verdicts.get(r["verdict"], 0) + 1
    rows.append(f"| {m['id']} | {clean(m.get('summary'), 260)} | {clean(str(m.get('max_numeric_difference')), 90)} | {v} |")
lines = open("/verif/DESIGN.md").read().split("\n")
start = next(i for i, l in enumerate(lines) if l.startswith("### 8.6"))
first = next(i for i in range(start, len(lines)) if re.match(r"^\| C\d\d-", lines[i]))
end = first
while end + 1 < len(lines) and re.match(r"^\| C\d\d-", lines[end + 1]):
    end += 1
lines[first : end + 1] = rows
open("/verif/DESIGN.md", "w").write("\n".join(lines))
print(len(rows), "rows;", verdicts)
