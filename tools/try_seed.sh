#!/bin/sh
# tools/try_seed.sh <seeded id> [property] [tier] [seed]  - run one check against one kept change on a scratch copy (no tests, no demo)
cd "$(dirname "$0")/.." || exit 2
id=$1; prop=${2:-$(echo "$id" | cut -d- -f1)}; tier=${3:-quick}; seed=${4:-0}
tmp=$(mktemp -d /tmp/vf-try-XXXXXX)
mkdir -p "$tmp/repo" && cp -r /repo/fuzzylite /repo/tests "$tmp/repo/" && (cd "$tmp/repo" && patch -p1 -s < /verif/seeded/$id/patch.diff) || { echo "patch failed"; rm -rf "$tmp"; exit 2; }
VERIF_REPO=$tmp/repo VERIF_EVIDENCE_DIR=$tmp/evidence VERIF_REPLAY_DIR=$tmp/replays ./check "$prop" --tier "$tier" --seed "$seed" 2>&1 | grep -v "^\[" | cut -c1-260 | head -${LINES_MAX:-8}
echo "exit=$? ($id vs $prop $tier)"
rm -rf "$tmp"
