"""Seeded generator of aggregated fuzzy sets (lists of activated terms) for the defuzzifier properties."""
from __future__ import annotations

import math

from ..ref.norms import SNORMS, TNORMS
from . import terms as G

RESOLUTIONS = [1, 2, 3, 4, 5, 10, 37, 100, 1000]


def degree(rnd, batch):
    def one():
        c = rnd.random()
        if c < 0.12:
            return 0.0
        if c < 0.24:
            return 1.0
        if c < 0.5:
            return rnd.randrange(0, 17) / 16
        return rnd.random()

    if batch:
        return [one() for _ in range(batch)]
    return one()


def degree_type(rnd, deg):
    """how the degree is held: a float / float64 array (None), or - when the values allow it exactly - Python ints or an
    integer array (degrees 0 and 1), or float32 (multiples of 1/16)"""
    vals = deg if isinstance(deg, list) else [deg]
    c = rnd.random()
    if c < 0.15 and all(v in (0.0, 1.0) for v in vals):
        return "int"
    if c < 0.3 and all(v * 16 == int(v * 16) for v in vals):
        return "float32"
    return None


def fuzzy_set(rnd, lo=None, hi=None, max_terms=5, batch=None, d=3, kinds=None):
    """spec of an Aggregated set over [lo, hi]: aggregation, and activated terms (term spec, degree(s), implication)"""
    if lo is None:
        lo = G.snap(rnd.uniform(-10, 5), 1)
        hi = G.snap(lo + rnd.choice([1.0, 2.5, 10.0, 0.5]), 1)
    n = rnd.choice([0, 1, 1, 2, 2, 3, 3, 4, 5][: max_terms + 4])
    n = min(n, max_terms)
    if batch is None:
        batch = rnd.choice([0, 0, 0, 1, 2, 3, 6])
    acts = []
    for k in range(n):
        kind = rnd.choice(kinds or (G.SHAPES + ["Trapezoid", "Trapezoid", "Rectangle", "Triangle"]))
        t = G.shape_term(rnd, f"t{k}", lo, hi, kind=kind, d=d)
        # some activations keep a scalar degree inside a batch (broadcast)
        deg = degree(rnd, batch if (batch and rnd.random() < 0.85) else 0)
        acts.append(dict(term=t, degree=deg, implication=rnd.choice(TNORMS + ["Minimum", "Minimum", "AlgebraicProduct"]), degree_type=degree_type(rnd, deg)))
    # repeat a term now and then (several rules concluding the same term)
    if acts and rnd.random() < 0.25:
        a = rnd.choice(acts)
        acts.append(dict(term=a["term"], degree=degree(rnd, batch if isinstance(a["degree"], list) else 0), implication=a["implication"]))
    return dict(minimum=lo, maximum=hi, aggregation=rnd.choice(SNORMS + ["Maximum", "Maximum"]), activated=acts, batch=batch)


def build_set(fl, spec, row=None, terms_cache=None):
    """Aggregated term of the spec; row = k builds the k-th row alone with plain float degrees"""
    import numpy as np

    acts = []
    cache = terms_cache if terms_cache is not None else {}
    for a in spec["activated"]:
        key = id(a["term"])
        if key not in cache:
            cache[key] = G.build_term(fl, a["term"])
        deg = a["degree"]
        if isinstance(deg, list):
            deg = deg[row] if row is not None else np.array(deg)
        kind = a.get("degree_type")
        if kind == "int":
            deg = deg.astype(np.int64) if isinstance(deg, np.ndarray) else int(deg)
        elif kind == "float32":
            deg = deg.astype(np.float32) if isinstance(deg, np.ndarray) else np.float32(deg)
        acts.append(fl.Activated(cache[key], deg, getattr(fl, a["implication"])()))
    return fl.Aggregated("set", spec["minimum"], spec["maximum"], getattr(fl, spec["aggregation"])(), acts)


def shifted(spec, c):
    """the same set translated by c (c dyadic so that grid parameters stay exact enough; used with a tolerance)"""
    out = dict(spec, minimum=spec["minimum"] + c, maximum=spec["maximum"] + c, activated=[])
    memo = {}
    for a in spec["activated"]:
        t = a["term"]
        if id(t) not in memo:
            memo[id(t)] = shift_term(t, c)
        out["activated"].append(dict(a, term=memo[id(t)]))
    return out


LOCATION = {
    "Arc": [0, 1], "Bell": [0], "Binary": [0], "Concave": [0, 1], "Cosine": [0], "Gaussian": [0], "GaussianProduct": [0, 2], "PiShape": [0, 1, 2, 3],
    "Ramp": [0, 1], "Rectangle": [0, 1], "SemiEllipse": [0, 1], "Sigmoid": [0], "SigmoidDifference": [0, 3], "SigmoidProduct": [0, 3], "Spike": [0],
    "SShape": [0, 1], "Trapezoid": [0, 1, 2, 3], "Triangle": [0, 1, 2], "ZShape": [0, 1],
}  # fmt: skip


def shift_term(t, c):
    p = list(t["params"])
    if t["cls"] == "Discrete":
        for k in range(0, len(p), 2):
            p[k] += c
    else:
        for k in LOCATION[t["cls"]]:
            if math.isfinite(p[k]):
                p[k] += c
    return dict(t, params=p)
