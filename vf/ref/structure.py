"""Structural digest of an engine (plain data) and a tolerant comparison, used by the round-trip properties."""
from __future__ import annotations

import enum
import math

import numpy as np


def plain(fl, x):
    if isinstance(x, (bool, str, type(None), int)):
        return x
    if isinstance(x, (float, np.floating)):
        return float(x)
    if isinstance(x, enum.Enum):
        return f"{type(x).__name__}.{x.name}"
    if isinstance(x, np.ndarray):
        return [plain(fl, v) for v in x.tolist()]
    if isinstance(x, (list, tuple)):
        return [plain(fl, v) for v in x]
    if isinstance(x, dict):
        return {str(k): plain(fl, v) for k, v in x.items()}
    if isinstance(x, (fl.Norm, fl.Hedge)):
        return type(x).__name__
    if isinstance(x, (fl.Defuzzifier, fl.Activation)):
        return {"class": type(x).__name__, **{k: plain(fl, v) for k, v in vars(x).items()}}
    return repr(x)


def term_digest(fl, t):
    fields = {k: plain(fl, v) for k, v in vars(t).items() if k not in ("engine", "root")}
    return {"class": type(t).__name__, **fields}


def variable_digest(fl, v):
    d = {"class": type(v).__name__, "name": v.name, "description": v.description, "enabled": bool(v.enabled), "minimum": float(v.minimum), "maximum": float(v.maximum), "lock_range": bool(v.lock_range), "terms": [term_digest(fl, t) for t in v.terms]}
    if isinstance(v, fl.OutputVariable):
        d.update(aggregation=plain(fl, v.aggregation), defuzzifier=plain(fl, v.defuzzifier), default_value=float(v.default_value), lock_previous=bool(v.lock_previous))
    return d


def engine_digest(fl, e):
    return {
        "name": e.name,
        "description": e.description,
        "inputs": [variable_digest(fl, v) for v in e.input_variables],
        "outputs": [variable_digest(fl, v) for v in e.output_variables],
        "blocks": [
            {
                "name": rb.name, "description": rb.description, "enabled": bool(rb.enabled), "conjunction": plain(fl, rb.conjunction), "disjunction": plain(fl, rb.disjunction),
                "implication": plain(fl, rb.implication), "activation": plain(fl, rb.activation),
                "rules": [{"antecedent": r.antecedent.text, "consequent": r.consequent.text, "weight": float(r.weight), "enabled": bool(r.enabled), "loaded": bool(r.is_loaded())} for r in rb.rules],
            }
            for rb in e.rule_blocks
        ],
    }  # fmt: skip


def differences(a, b, tol, path=""):
    """list of (path, a, b) where the digests differ; floats compared with `tol` (absolute), NaN == NaN"""
    out = []
    if isinstance(a, dict) and isinstance(b, dict):
        for k in sorted(set(a) | set(b)):
            if k not in a or k not in b:
                out.append((f"{path}.{k}", a.get(k, "<missing>"), b.get(k, "<missing>")))
            else:
                out += differences(a[k], b[k], tol, f"{path}.{k}")
    elif isinstance(a, list) and isinstance(b, list):
        if len(a) != len(b):
            out.append((f"{path}.length", len(a), len(b)))
        else:
            for i, (x, y) in enumerate(zip(a, b)):
                out += differences(x, y, tol, f"{path}[{i}]")
    elif isinstance(a, (int, float)) and isinstance(b, (int, float)) and not isinstance(a, bool) and not isinstance(b, bool):
        fa, fb = float(a), float(b)
        if not (fa == fb or (math.isnan(fa) and math.isnan(fb)) or (math.isfinite(fa) and math.isfinite(fb) and abs(fa - fb) <= tol)):
            out.append((path, a, b))
    elif a != b:
        out.append((path, a, b))
    return out


def kind_of(path):
    """mechanism class of a difference, from its path"""
    last = path.rsplit(".", 1)[-1]
    if ".rules[" in path:
        return f"rule.{last.split('[')[0]}"
    if ".terms[" in path:
        return "term." + ("height" if last == "height" else "class" if last == "class" else "name" if last == "name" else "parameter")
    if ".defuzzifier" in path:
        return "defuzzifier"
    if ".activation" in path:
        return "activation"
    return last.split("[")[0]
