"""C09 — Integral defuzzifiers return the defined point of the sampled fuzzy set.

Deciding step: a monitor on `defuzzify` of the 5 integral defuzzifier classes (and on Op.midpoints) recomputes, row by
row with scalar loops, the definition from the memberships sampled at its own midpoints (each batch row is rebuilt
as a set with plain float degrees, so the batch broadcasting of the library is not shared) and compares; ordering
SOM<=MOM<=LOM, range, NaN-iff-empty, translation invariance and batch==per-set are checked on monitored calls."""
from __future__ import annotations

import math

import numpy as np

from ..core import import_library
from ..ref import terms as RT
from ..gen import fuzzysets as F
from ..env import ENVIRONMENTS, excusable, hostile
from ..probe import Probe, Reach

WORKERS = {"quick": 1, "thorough": 16}
INTEGRAL = ["Bisector", "Centroid", "LargestOfMaximum", "MeanOfMaximum", "SmallestOfMaximum"]


def feq(a, b):
    return a == b or (math.isnan(a) and math.isnan(b))


def midpoints(lo, hi, r):
    dx = (hi - lo) / r
    return [lo + (i + 0.5) * dx for i in range(r)]


def define(kind, xs, mu):
    """Scalar definition of each defuzzifier on the samples (xs, mu). Returns (value, low, high): value is the defined
    point; [low, high] is the interval spanned by the near-tied candidates (tie-aware fallback)."""
    if not any(m > 0 for m in mu) or all(m == 0 for m in mu):
        if not any(m > 0 for m in mu):
            return math.nan, math.nan, math.nan
    if kind == "Centroid":
        den = math.fsum(mu)
        if den == 0:
            return math.nan, math.nan, math.nan
        v = math.fsum(x * m for x, m in zip(xs, mu)) / den
        return v, v, v
    if kind in ("SmallestOfMaximum", "MeanOfMaximum", "LargestOfMaximum"):
        top = max(mu)
        if not top > 0:
            return math.nan, math.nan, math.nan
        at = [x for x, m in zip(xs, mu) if m == top]
        near = [x for x, m in zip(xs, mu) if abs(m - top) <= 1e-12]
        if kind == "SmallestOfMaximum":
            return min(at), min(near), min(at)
        if kind == "LargestOfMaximum":
            return max(at), max(at), max(near)
        return sum(at) / len(at), min(near), max(near)
    if kind == "Bisector":
        cum, acc = [], 0.0
        for m in mu:
            acc = acc + (0.0 if math.isnan(m) else m)
            cum.append(acc)
        total = cum[-1]
        if total == 0:
            return math.nan, math.nan, math.nan
        dist = [abs(c / total - 0.5) for c in cum]
        best = min(dist)
        at = [x for x, dd in zip(xs, dist) if dd == best]
        near = [x for x, dd in zip(xs, dist) if dd - best <= 1e-12]
        return sum(at) / len(at), min(near), max(near)
    raise KeyError(kind)


class IntegralMonitor:
    """Always-on for Aggregated sets (and plain terms) given to the five integral defuzzifiers."""

    def __init__(self, ctx, fl):
        self.ctx, self.fl = ctx, fl
        self.by_set = {}  # (lo, hi, r, samples) -> {kind: value}

    def install(self, probe):
        for k in INTEGRAL:
            probe.wrap(getattr(self.fl, k), "defuzzify", after=self._after(k))
        probe.wrap(self.fl.Op, "midpoints", after=self._after_midpoints)

    def _after_midpoints(self, args, kwargs, token, result, exc):
        ctx = self.ctx
        if exc is not None or len(args) < 2:
            return
        lo, hi = float(args[0]), float(args[1])
        r = int(args[2]) if len(args) > 2 else int(kwargs.get("resolution", 1000))
        if not (math.isfinite(lo) and math.isfinite(hi)) or r < 1:
            ctx.hit("out_of_domain:midpoints of an unbounded range")
            return
        ctx.evaluated()
        mine = midpoints(lo, hi, r)
        got = np.asarray(result, dtype=float).ravel()
        scale = max(abs(lo), abs(hi), 1e-300)
        if got.size != r or any(abs(a - b) > 4e-16 * scale for a, b in zip(got, mine)):
            ctx.violation("Op.midpoints are not the r midpoints of r equal cells", {"minimum": lo, "maximum": hi, "resolution": r}, mine[:5], got[:5])

    def rows_of(self, term):
        """(number of rows, function row -> term with float degrees) for an Aggregated with batch degrees"""
        fl = self.fl
        if not isinstance(term, fl.Aggregated):
            return 1, None
        n = 1
        for a in term.terms:
            n = max(n, int(np.size(a.degree)))
        if n == 1:
            return 1, None

        def row(j):
            acts = [fl.Activated(a.term, float(np.asarray(a.degree).ravel()[j]) if np.size(a.degree) > 1 else float(np.asarray(a.degree)), a.implication) for a in term.terms]
            return fl.Aggregated(term.name, term.minimum, term.maximum, term.aggregation, acts)

        return n, row

    def _after(self, kind):
        def after(args, kwargs, token, result, exc):
            self.judge(kind, args[0], args[1], float(args[2]), float(args[3]), result, exc)

        return after

    def judge(self, kind, dz, term, lo, hi, result, exc):
        ctx, fl = self.ctx, self.fl
        r = int(dz.resolution)
        if not (math.isfinite(lo) and math.isfinite(hi) and lo < hi and r >= 1):
            ctx.hit("out_of_domain:range not finite or empty")
            return
        if isinstance(term, fl.Aggregated) and (term.aggregation is None or any(a.implication is None for a in term.terms)):
            ctx.hit("out_of_domain:missing operator")
            return
        if not isinstance(term, fl.Aggregated) and type(term).__module__ != fl.Term.__module__:
            ctx.hit("out_of_domain:term class defined outside the library (its membership need not be a function of x)")
            return
        case = {"defuzzifier": kind, "resolution": r, "minimum": lo, "maximum": hi, "set": term.parameters() if isinstance(term, fl.Aggregated) else str(term)}
        if exc is not None:
            ctx.violation(f"{kind}: defuzzify raises {type(exc).__name__}", case, "a value", repr(exc))
            return
        xs = midpoints(lo, hi, r)
        nrows, row = self.rows_of(term)
        got = np.asarray(result, dtype=float)
        if got.size != nrows:
            ctx.violation(f"{kind}: a batch of sets gives a different number of values (resolution {'1' if r == 1 else '>1'})", dict(case, rows=nrows), nrows, got)
            return
        got = got.ravel()
        ctx.hit(f"calls:{kind}:{'batch' if nrows > 1 else 'single'}")
        ctx.hit(f"resolution:{r if r in (1, 2, 3, 4, 5, 10, 37, 100, 1000) else 'other'}")
        scale = max(abs(lo), abs(hi), hi - lo)
        for j in range(nrows):
            t = term if row is None else row(j)
            try:
                sampled = np.asarray(t.membership(np.array(xs)), dtype=float)
                if sampled.ndim == 0:  # a set without activated terms has the constant membership 0
                    sampled = np.broadcast_to(sampled, (r,))
                mu = [float(v) for v in sampled.ravel()]
            except Exception as ex:
                ctx.hit(f"out_of_domain:membership raises {type(ex).__name__}")
                return
            if len(mu) != r:
                ctx.hit("inconclusive:sampled membership has the wrong length")
                return
            if any(math.isnan(m) for m in mu):
                ctx.hit("out_of_domain:NaN membership sample")
                continue
            ctx.evaluated()
            e, e_lo, e_hi = define(kind, xs, mu)
            g = float(got[j])
            empty = not any(m > 0 for m in mu)
            ctx.hit(f"piece:{kind}:{'empty-set' if empty else 'tie' if (e_lo != e_hi and not math.isnan(e)) else 'plain'}")
            top = max(mu) if mu else 0.0
            if not empty and sum(1 for m in mu if m == top) >= 2:
                ctx.hit(f"piece:{kind}:maximum attained at several sample points")
            if math.isnan(e) != math.isnan(g):
                ctx.violation(f"{kind}: NaN result does not coincide with an all-zero sampled membership", dict(case, row=j, all_zero=empty), e, g)
                continue
            if not math.isnan(e):
                tol = 1e-11 * scale if kind in ("Centroid", "MeanOfMaximum", "Bisector") else 0.0
                if not (g == e or abs(g - e) <= tol):
                    if e_lo - tol <= g <= e_hi + tol and e_lo != e_hi:
                        ctx.hit("ambiguous:near-tie (1e-12) among the candidate sample points")
                    else:
                        ctx.violation(f"{kind}: result is not the defined point of the sampled set", dict(case, row=j, samples=list(zip(xs, mu))[:12]), e, g)
                        continue
                if not (lo <= g <= hi):
                    ctx.violation(f"{kind}: result outside [minimum, maximum]", dict(case, row=j), [lo, hi], g)
                if len({m for m in mu}) > 1:
                    ctx.nontrivial(kind, r, lo, hi, tuple(mu[:64]))
            key = (lo, hi, r, hash(tuple(mu)))  # the sampled set itself: SOM/MOM/LOM of identical samples are comparable
            rec = self.by_set.setdefault(key, {})
            rec[kind] = g
            if len(self.by_set) > 20000:
                self.by_set.pop(next(iter(self.by_set)))
            if {"SmallestOfMaximum", "MeanOfMaximum", "LargestOfMaximum"} <= rec.keys():
                s, m, l = rec["SmallestOfMaximum"], rec["MeanOfMaximum"], rec["LargestOfMaximum"]
                ctx.hit("law:SOM<=MOM<=LOM")
                if not math.isnan(s) and not (s <= m + 1e-12 * scale and m <= l + 1e-12 * scale):
                    ctx.violation("SOM <= MOM <= LOM broken", dict(case, row=j), "ordered", [s, m, l])
                rec.pop("MeanOfMaximum")


def run(ctx):
    fl = import_library()
    nsets = ctx.scale(700, 50_000)
    ctx.rule = (
        f"every IntegralDefuzzifier.defuzzify call observed. Workload: {nsets} aggregated sets of 0-5 activated shape terms (any implication / "
        "aggregation operator, degrees incl. 0 and 1, clipped plateaus producing ties, repeated terms), scalar and batch degrees (N<=6), "
        "resolutions {1,2,3,4,5,10,37,100,1000}, each given to all 5 defuzzifiers; translated copies (dyadic c) for the centroid; every batch "
        "also defuzzified set by set. distinct_nontrivial = distinct (defuzzifier, resolution, range, sampled memberships) with a non-constant "
        "membership"
    )
    ctx.assumptions += [
        "memberships are sampled by the library's own Term.membership on sets rebuilt with plain float degrees (leaf correctness is C03/C04's business)",
        "SOM/LOM exact; Centroid/MOM/Bisector 1e-11 x range scale; a mismatch is 'ambiguous' only when candidate sample points tie within 1e-12 and the result lies among them",
        "translation invariance of the centroid is checked with 1e-9 x range (floating-point law)",
    ]
    funcs = {f"{k}.defuzzify": getattr(fl, k).defuzzify for k in INTEGRAL}
    funcs["Op.midpoints"] = fl.Op.__dict__["midpoints"]
    def excuse(mechanism, observed, note):
        # NumPy told to raise on invalid operations: the centroid and the bisector are quotients that are 0/0 for an empty set
        return excusable(observed) or (mechanism.split(":")[0] in ("Centroid", "Bisector") and "raises FloatingPointError" in mechanism and "invalid value" in str(observed))

    ctx.excuse = excuse
    with Reach(funcs) as reach, Probe() as probe:
        mon = IntegralMonitor(ctx, fl)
        mon.install(probe)
        for i, rnd in ctx.cases("sets", nsets):
            spec = F.fuzzy_set(rnd, d=rnd.choice([1, 3]))
            r = rnd.choice(F.RESOLUTIONS) if i % 9 else F.RESOLUTIONS[(i // 9) % len(F.RESOLUTIONS)]
            lo, hi = spec["minimum"], spec["maximum"]
            if i % 5 == 2 and len(spec["activated"]) >= 2:
                # different terms that happen to carry one name (unnamed terms, the `low` of two variables): the set is still the
                # set of its own terms; the common Mamdani operators included
                for a in spec["activated"]:
                    a["term"]["name"] = rnd.choice(["", "low"])
                if rnd.random() < 0.6:
                    spec["aggregation"] = "Maximum"
                    for a in spec["activated"]:
                        a["implication"] = "Minimum"
                ctx.hit("event:different terms of the set carry the same name")
            agg = F.build_set(fl, spec)
            res = {}
            for k in INTEGRAL:
                try:
                    if i % 4 == 3:
                        dzr = fl.settings.factory_manager.defuzzifier.construct(k)
                        dzr.configure(str(r))
                    else:
                        # (the resolution as a Python int, a NumPy integer - a sweep over np.array([...]) - or by keyword)
                        given = [r, np.int64(r), np.int32(r), r][i % 4]
                        dzr = getattr(fl, k)(given) if i % 8 < 4 else getattr(fl, k)(resolution=given)
                        ctx.evaluated()
                        ctx.hit("compare:defuzzifier holds the resolution it was given")
                        if int(dzr.resolution) != r:
                            ctx.violation(f"{k}: a defuzzifier does not hold the resolution it was given", {"given": repr(given)}, r, dzr.resolution)
                            res[k] = None
                            continue
                    handed = dzr.defuzzify(agg, lo, hi)
                    res[k] = np.atleast_1d(np.array(handed, dtype=float, copy=True))
                    if isinstance(handed, np.ndarray) and handed.flags.writeable and i % 3 == 0:
                        # the result belongs to the caller, who may fill in its undefined entries in place (as OutputVariable does)
                        handed[...] = np.where(np.isnan(handed), 12345.0, handed)
                        ctx.hit("event:a result edited in place by its owner")
                except Exception:
                    res[k] = None  # judged by the monitor
            # batch == set by set (exact)
            if spec["batch"]:
                for k in INTEGRAL:
                    if res[k] is None or res[k].size != spec["batch"]:
                        continue
                    for j in range(spec["batch"]):
                        one = float(np.asarray(getattr(fl, k)(r).defuzzify(F.build_set(fl, spec, row=j), lo, hi)))
                        ctx.hit("law:batch==per-set")
                        ctx.evaluated()
                        if not feq(one, float(res[k][j])):
                            ctx.violation(f"{k}: batch result differs from defuzzifying the set alone", {"set": spec, "resolution": r, "row": j}, one, float(res[k][j]))
            # centroid moves by c under translation
            if res["Centroid"] is not None and i % 3 == 0:
                c = rnd.choice([1.0, -2.0, 0.5, 8.0, -0.25])
                sh = F.shifted(spec, c)
                try:
                    moved = np.atleast_1d(np.asarray(fl.Centroid(r).defuzzify(F.build_set(fl, sh), sh["minimum"], sh["maximum"]), dtype=float))
                except Exception:
                    moved = None
                on_breakpoint = False
                if moved is not None:
                    # the law holds in real arithmetic; in floating point the shifted breakpoints are rounded, so a sample point
                    # sitting on (or within rounding of) a breakpoint may fall on the other side after the shift
                    span = hi - lo
                    for spc in (spec, sh):
                        mids = midpoints(spc["minimum"], spc["maximum"], r)
                        for a in spc["activated"]:
                            for b in F.G.breakpoints(a["term"]):
                                if any(abs(m - b) <= 1e-9 * max(span, abs(b)) for m in mids):
                                    on_breakpoint = True
                if on_breakpoint:
                    ctx.hit("ambiguous:a sample point sits on a breakpoint of a term (translation law not judged)")
                elif moved is not None and moved.size == res["Centroid"].size:
                    ctx.hit("law:centroid-translation")
                    ctx.evaluated()
                    scale = max(abs(lo), abs(hi), abs(lo + c), abs(hi + c), hi - lo)
                    for a, b in zip(res["Centroid"], moved):
                        if math.isnan(a) != math.isnan(b) or (not math.isnan(a) and abs((b - a) - c) > 1e-9 * scale):
                            # sets with vertical edges on a sample point may change membership under a rounded shift
                            ctx.hit("ambiguous:translated centroid differs (discontinuous membership on a sample point?)") if has_jump(spec) else ctx.violation("Centroid does not move by c when set and range are translated by c", {"set": spec, "resolution": r, "c": c}, a + c, b)
            if i < 3:
                ctx.sample("set", {"set": spec, "resolution": r, "results": {k: (v.tolist() if v is not None else None) for k, v in res.items()}})
        # one defuzzifier instance used again and again: resolution re-assigned or re-configured, same and different ranges,
        # one fuzzy set object whose degrees change in place (stale caches)
        for i, rnd in ctx.cases("reuse", ctx.scale(30, 600)):
            pool = {k: getattr(fl, k)(rnd.choice(F.RESOLUTIONS)) for k in INTEGRAL}
            spec = F.fuzzy_set(rnd, lo=0.0, hi=rnd.choice([1.0, 2.5]), batch=0, d=3)
            agg = F.build_set(fl, spec)
            for step in range(5):
                for k, dz in pool.items():
                    try:
                        dz.defuzzify(agg, spec["minimum"], spec["maximum"])
                    except Exception:
                        pass
                what = rnd.choice(["resolution", "configure", "degrees", "range", "parameter", "parameter"])
                for dz in pool.values():
                    if what == "resolution":
                        dz.resolution = rnd.choice(F.RESOLUTIONS)
                    elif what == "configure":
                        dz.configure(str(rnd.choice(F.RESOLUTIONS)))
                if what == "degrees":
                    for a in agg.terms:
                        a.degree = rnd.choice([0.0, 1.0, rnd.random()])
                elif what == "range":
                    spec = dict(spec, maximum=spec["maximum"] + 0.5)
                elif what == "parameter":
                    # a term of the set is tuned a little (less than its printed text shows) or more
                    for a in agg.terms:
                        names = RT.ATTRS.get(type(a.term).__name__)
                        if names and rnd.random() < 0.7:
                            attr = rnd.choice(names)
                            step = rnd.choice([1e-4, 3e-4, -2e-4, 0.05])
                            if math.isfinite(getattr(a.term, attr)):
                                setattr(a.term, attr, getattr(a.term, attr) + step)
                        if rnd.random() < 0.3:
                            a.term.height = rnd.choice([1.0, 0.9997, 0.5])
                ctx.hit(f"event:reuse after {what} change")
        # a flat set over the whole range at an even resolution: every point is a maximum and two sample points halve the area equally
        for i, rnd in ctx.cases("plateau", 4):
            t = fl.Rectangle("flat", -1.0, 3.0, [1.0, 0.5][i % 2])
            for k in INTEGRAL:
                getattr(fl, k)([10, 4][i // 2]).defuzzify(t, -1.0, 3.0)
        # resolutions of several thousand (block-wise sampling): plateaus and twin peaks across the range
        for i, rnd in ctx.cases("high resolution", ctx.scale(2, 24)):
            r = rnd.choice([4097, 5000, 8193, 10000] if not ctx.thorough else [4097, 5000, 8193, 10000, 16385, 20000, 40000])
            t = [fl.Trapezoid("p", 0.0, 2.0, 8.0, 10.0), fl.Aggregated("twin", 0.0, 10.0, fl.Maximum(), [fl.Activated(fl.Triangle("a", 0.0, 1.0, 2.0), 0.5, fl.Minimum()), fl.Activated(fl.Triangle("b", 7.0, 8.5, 10.0), 0.5, fl.Minimum())]), fl.Rectangle("r", 1.0, 9.5, 0.5)][i % 3]
            for k in INTEGRAL:
                try:
                    getattr(fl, k)(r).defuzzify(t, 0.0, 10.0)
                except Exception:
                    pass
            ctx.hit("workload:resolution above 4096")
        # ranges far from the origin, very narrow and very wide ones: the defined point is a point of the range, wherever the range is
        for i, rnd in ctx.cases("ranges", ctx.scale(60, 1200)):
            lo, w = rnd.choice([(1e5, 1.0), (1e6, 1.0), (1e7, 50.0), (5.0, 1e-5), (0.0, 1e-9), (-1e-7, 2e-7), (1e12, 1000.0), (-1e9, 3.0), (0.0, 1e-300), (-1e300, 2e300), (1e-3, 1e-6), (123456.0, 0.5)])
            hi = lo + w
            kind = rnd.choice(["Triangle", "Trapezoid", "Rectangle", "Ramp", "Cosine"])
            a, b, c, d = sorted(lo + w * rnd.choice([0.0, 0.1, 0.25, 0.5, 0.75, 0.9, 1.0, rnd.random()]) for _ in range(4))
            if kind == "Triangle" and a < c:
                t = fl.Triangle("t", a, b, c)
            elif kind == "Trapezoid" and a < d:
                t = fl.Trapezoid("t", a, b, c, d)
            elif kind == "Ramp" and a != d:
                t = fl.Ramp("t", a, d)
            elif kind == "Cosine" and d > a:
                t = fl.Cosine("t", 0.5 * (a + d), d - a)
            else:
                t = fl.Rectangle("t", a, max(d, lo + 0.5 * w))
            if i % 2:
                t = fl.Aggregated("set", lo, hi, fl.Maximum(), [fl.Activated(t, rnd.choice([1.0, 0.5, rnd.random()]), fl.Minimum())])
            for k in INTEGRAL:
                try:
                    getattr(fl, k)(rnd.choice([10, 100, 37, 1000])).defuzzify(t, lo, hi)
                except Exception:
                    pass  # judged by the monitor
            ctx.hit("workload:range far from the origin, very narrow or very wide")
        # a set defuzzified over another range than the one it carries itself (a window of it), bounds of exactly zero included; and
        # the grid of sample points handed out by Op.midpoints belongs to whoever asked for it (a caller may shift or scale it)
        for i, rnd in ctx.cases("windows", ctx.scale(40, 800)):
            own_lo, own_hi = rnd.choice([(-2.0, 2.0), (0.0, 4.0), (-4.0, 0.0), (-1.0, 3.0)])
            tri = fl.Triangle("a", own_lo, 0.5 * (own_lo + own_hi), own_hi)
            agg = fl.Aggregated("set", own_lo, own_hi, fl.Maximum(), [fl.Activated(tri, rnd.choice([1.0, 0.5, rnd.random()]), fl.Minimum()), fl.Activated(fl.Rectangle("b", own_lo, own_lo + 1.0), 0.25, fl.Minimum())])
            lo, hi = rnd.choice([(0.0, 1.0), (-2.0, 0.0), (0.0, own_hi if own_hi > 0 else 1.0), (-0.0, 2.0), (own_lo, 0.0 if own_lo < 0 else own_hi), (-1.0, 1.0)])
            r = rnd.choice([10, 64, 100, 37])
            if i % 2:
                grid = fl.Op.midpoints(lo, hi, r)
                grid += rnd.choice([1.0, -0.5, 10.0])  # the caller's own use of its grid
                ctx.hit("event:a grid handed out by Op.midpoints modified by its owner")
            for k in INTEGRAL:
                try:
                    getattr(fl, k)(r).defuzzify(agg, lo, hi)
                except Exception:
                    pass  # judged by the monitor
            ctx.hit("workload:set defuzzified over a window of its own range")
        # a user's vectorised term whose membership comes back as a boolean mask or as 0/1 integers (a crisp set): a set like
        # any other
        class Crisp(fl.Term):
            def __init__(self, name, left, right, as_type):
                super().__init__(name)
                self.left, self.right, self.as_type = left, right, as_type

            def membership(self, x):
                inside = (np.asarray(x) >= self.left) & (np.asarray(x) <= self.right)
                return inside if self.as_type == "bool" else np.where(inside, 1, 0) if self.as_type == "int" else inside.astype(np.float32)

        for i, rnd in ctx.cases("crisp user term", ctx.scale(30, 600)):
            lo, hi = 0.0, rnd.choice([10.0, 1.0, 4.0])
            a = rnd.uniform(lo, 0.6 * hi)
            term = Crisp("crisp", a, rnd.uniform(a, hi) if i % 7 else a - 1.0, ["bool", "int", "float32"][i % 3])
            r = rnd.choice([10, 50, 37, 4])
            xs = midpoints(lo, hi, r)
            mu = [float(v) for v in np.asarray(term.membership(np.array(xs)))]
            with probe.quiet():
                for k in INTEGRAL:
                    ctx.evaluated()
                    want, low, high = define(k, xs, mu)
                    try:
                        got = float(np.asarray(getattr(fl, k)(r).defuzzify(term, lo, hi)).ravel()[0])
                    except Exception as ex:
                        ctx.violation(f"{k}: defuzzify raises {type(ex).__name__} on a user's term with {term.as_type} membership values", {"defuzzifier": k, "resolution": r, "term": [term.left, term.right]}, want, repr(ex))
                        continue
                    ctx.hit("crisp user term defuzzified")
                    if not (feq(got, want) or (low - 1e-9 <= got <= high + 1e-9) or abs(got - want) <= 1e-9 * max(1.0, abs(want))):
                        ctx.violation(f"{k}: a user's term with {term.as_type} membership values gives another result than the sampled definition", {"defuzzifier": k, "resolution": r, "term": [term.left, term.right]}, want, got)
        # the process in another state: warnings are errors, the library logs at DEBUG, other NumPy print options, and NumPy told
        # to raise on invalid operations (the centroid and the bisector of an empty set are 0/0 by their definition and may then
        # raise; the maxima-based defuzzifiers involve no arithmetic on an empty set)
        for i, rnd in ctx.cases("environments", (len(ENVIRONMENTS) + 1) * ctx.scale(6, 60)):
            envname = (ENVIRONMENTS + ["errstate-invalid-raise"])[i % (len(ENVIRONMENTS) + 1)]
            tri, rect = fl.Triangle("a", 0.0, 1.0, 2.0), fl.Rectangle("b", 2.5, 3.5)
            deg = rnd.choice([0.0, 0.0, 0.5, rnd.random()])
            batch = np.array([0.0, rnd.random(), 0.0, 1.0])
            sets = [
                fl.Aggregated("empty-or-not", 0.0, 4.0, fl.Maximum(), [fl.Activated(tri, deg, fl.Minimum()), fl.Activated(rect, 0.0, fl.Minimum())]),
                fl.Aggregated("no terms", 0.0, 4.0, fl.Maximum(), []),
                fl.Aggregated("batch with empty rows", 0.0, 4.0, fl.Maximum(), [fl.Activated(tri, batch, fl.Minimum()), fl.Activated(rect, batch * 0.5, fl.AlgebraicProduct())]),
            ]
            ctx.hit(f"environment:{envname}")
            for k in INTEGRAL:
                for t in sets:
                    with (np.errstate(invalid="raise", divide="raise") if envname == "errstate-invalid-raise" else hostile(fl, envname)):
                        try:
                            getattr(fl, k)(rnd.choice([10, 100])).defuzzify(t, 0.0, 4.0)
                        except Exception:
                            pass  # judged by the monitor
        # plain terms given directly, as the unit tests do
        for i, rnd in ctx.cases("plain", ctx.scale(40, 800)):
            t = F.G.build_term(fl, F.G.shape_term(rnd, "t", -1.0, 1.0, kind=rnd.choice(["Triangle", "Trapezoid", "Gaussian", "Rectangle", "Bell"])))
            for k in INTEGRAL:
                getattr(fl, k)(rnd.choice([10, 100, 7])).defuzzify(t, -1.0, 1.0)
        # a user's term whose membership function is written for one value at a time (`if`, `math`): the defuzzifier may refuse
        # it, but a value it does report is the defined point of the set sampled point by point
        class Dome(fl.Term):
            def __init__(self, name, left, right, outside):
                super().__init__(name)
                self.left, self.right, self.outside = left, right, outside

            def membership(self, x):
                if x <= self.left or x >= self.right:
                    return self.outside
                return self.height * math.sin(math.pi * (x - self.left) / (self.right - self.left))

        for i, rnd in ctx.cases("scalar-only term", ctx.scale(30, 600)):
            lo, hi = 0.0, rnd.choice([10.0, 1.0, 4.0])
            a = rnd.uniform(lo, 0.5 * hi)
            term = Dome("dome", a, rnd.uniform(a + 0.1 * hi, hi), rnd.choice([0, 0.0]))
            r = rnd.choice([10, 50, 37])
            xs = midpoints(lo, hi, r)
            mu = [float(term.membership(x)) for x in xs]
            with probe.quiet():
                for k in INTEGRAL:
                    ctx.evaluated()
                    try:
                        got = float(np.asarray(getattr(fl, k)(r).defuzzify(term, lo, hi)).ravel()[0])
                    except Exception:
                        ctx.hit("scalar-only term refused")
                        continue
                    want, low, high = define(k, xs, mu)
                    ctx.hit("scalar-only term defuzzified")
                    if not (feq(got, want) or (low - 1e-9 <= got <= high + 1e-9) or abs(got - want) <= 1e-9 * max(1.0, abs(want))):
                        ctx.violation(f"{k}: a term evaluated one value at a time gives another result than the sampled definition", {"defuzzifier": k, "resolution": r, "term": [term.left, term.right], "outside_value": repr(term.outside)}, want, got)
        probe.report(ctx)
        reach.report(ctx)
    for k in INTEGRAL:
        ctx.require(f"hook:{k}.defuzzify", f"calls:{k}:batch", f"calls:{k}:single", f"piece:{k}:empty-set", f"piece:{k}:plain")
    # (SOM / LOM: the piece that matters is a maximum attained at several points; a *near*-tie among candidates - what "tie"
    # counts for them - is rare by nature and not required)
    for k in ("Bisector", "MeanOfMaximum"):
        ctx.require(f"piece:{k}:tie")
    for k in ("MeanOfMaximum", "SmallestOfMaximum", "LargestOfMaximum"):
        ctx.require(f"piece:{k}:maximum attained at several sample points")
    ctx.require("compare:defuzzifier holds the resolution it was given", "event:a result edited in place by its owner")
    ctx.require("workload:set defuzzified over a window of its own range", "event:a grid handed out by Op.midpoints modified by its owner")
    ctx.require("workload:range far from the origin, very narrow or very wide", "crisp user term defuzzified", "environment:errstate-invalid-raise", *[f"environment:{e}" for e in ENVIRONMENTS])
    ctx.require("law:SOM<=MOM<=LOM", "law:batch==per-set", "law:centroid-translation", "resolution:1", "resolution:1000", "event:reuse after resolution change", "event:reuse after degrees change", "event:reuse after parameter change", "event:different terms of the set carry the same name", "workload:resolution above 4096")


def has_jump(spec):
    return any(a["term"]["cls"] in ("Rectangle", "Binary", "Discrete") or (a["term"]["cls"] in ("Trapezoid", "Triangle") and len(set(a["term"]["params"])) < len(a["term"]["params"])) for a in spec["activated"]) or spec["aggregation"] in ("DrasticSum", "NilpotentMaximum") or any(a["implication"] in ("DrasticProduct", "NilpotentMinimum", "BoundedDifference") for a in spec["activated"])


def passive(ctx, fl, probe):
    """attach this property's always-on monitor to a foreign workload (the repository's test-suite, see vf/pytest_plugin.py)"""
    mon = IntegralMonitor(ctx, fl)
    mon.install(probe)
    return None
