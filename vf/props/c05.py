"""C05 — Hedges compute their formulas and keep degrees in [0,1].

Deciding step: a monitor on `hedge` of the six registered hedge classes compares every observed element with the
scalar formula (math only) and records the (hedge, x) -> y table; an offline pass checks range, end points,
monotonicity and the order relations; inverse pairs and the involution are observed through nested monitored calls."""
from __future__ import annotations

import math

import numpy as np

from ..core import import_library
from ..env import ENVIRONMENTS, excusable, hostile
from ..probe import Probe, Reach, ResultKeeper, check_unmutated, snapshot_arrays

WORKERS = {"quick": 1, "thorough": 16}

REF = {
    "any": lambda x: 1.0,
    "extremely": lambda x: 2.0 * x * x if x <= 0.5 else 1.0 - 2.0 * (1.0 - x) * (1.0 - x),
    "not": lambda x: 1.0 - x,
    "seldom": lambda x: math.sqrt(0.5 * x) if x <= 0.5 else 1.0 - math.sqrt(0.5 * (1.0 - x)),
    "somewhat": lambda x: math.sqrt(x),
    "very": lambda x: x * x,
}
CLASSES = {"any": "Any", "extremely": "Extremely", "not": "Not", "seldom": "Seldom", "somewhat": "Somewhat", "very": "Very"}
MAX_JUDGED = 20_000


class HedgeMonitor:
    def __init__(self, ctx, fl, table=True):
        self.ctx, self.fl = ctx, fl
        self.table = {h: {} for h in REF} if table else None
        self.sel = __import__("random").Random(f"c05sel:{ctx.seed}:{ctx.shard}")
        self.keeper = None  # ResultKeeper, set by the check's own workload

    def install(self, probe):
        for h, cname in CLASSES.items():
            probe.wrap(getattr(self.fl, cname), "hedge", before=snapshot_arrays, after=self._after(h))

    def _after(self, h):
        def after(args, kwargs, token, result, exc):
            x = check_unmutated(self.ctx, f"{h}: hedge", args, token)
            if self.keeper is not None and exc is None and h != "any":
                self.keeper.after_call(f"{h}: hedge", result, args[1:2])
            self.judge(h, x, result, exc)

        return after

    def judge(self, h, x, result, exc):
        ctx = self.ctx
        try:
            X = np.asarray(x, dtype=float)
        except Exception:
            ctx.hit("out_of_domain:non-numeric")
            return
        if exc is not None:
            ctx.violation(f"{h}: hedge raises {type(exc).__name__}", {"hedge": h, "x": X}, "a value", repr(exc))
            return
        Y = np.asarray(result)
        if Y.shape != X.shape:
            ctx.violation(f"{h}: result shape differs from operand shape", {"hedge": h, "x_shape": X.shape}, X.shape, Y.shape)
            return
        ft = np.dtype(self.fl.settings.float_type)
        narrow = ft != np.dtype(np.float64)
        if narrow:
            # the library works in its configured float type: the degree is what it becomes there, the formula is judged at
            # that type's precision and the relations over the recorded table are left to the float64 runs
            X = X.astype(ft).astype(float)
            ctx.hit(f"float_type:{ft.name}")
        xs, ys = X.ravel(), Y.astype(float).ravel()
        n = xs.size
        ctx.hit(f"calls:{h}:{'scalar' if X.ndim == 0 else f'{X.ndim}d'}")
        if n <= MAX_JUDGED:
            idx = range(n)
        else:
            idx = set(self.sel.sample(range(n), 512)) | set(np.argsort(np.abs(xs - 0.5))[:32].tolist()) | set(range(48)) | set(range(n - 48, n))
            ctx.hit("elements_not_judged", n - len(idx))
        ref = REF[h]
        tab = self.table[h] if (self.table is not None and not narrow) else None
        for i in idx:
            v, y = float(xs[i]), float(ys[i])
            if not (0.0 <= v <= 1.0):
                ctx.hit("out_of_domain:degree outside [0,1] or NaN")
                continue
            ctx.evaluated()
            if narrow:
                e, eps = ref(v), float(np.finfo(ft).eps)
                if not (abs(y - e) <= 8 * eps + 8 * eps * math.sqrt(abs(e))):
                    ctx.violation(f"{h}: value differs from the documented formula", {"hedge": h, "x": v, "float_type": ft.name}, e, y)
                elif not (0.0 <= y <= 1.0):
                    ctx.violation(f"{h}: result outside [0,1]", {"hedge": h, "x": v, "float_type": ft.name}, "[0,1]", y)
                continue
            if h in ("extremely", "seldom"):
                ctx.hit(f"piece:{h}:{'x<0.5' if v < 0.5 else 'x==0.5' if v == 0.5 else 'x>0.5'}")
            e = ref(v)
            if not (y == e or abs(y - e) <= 1e-15):
                if h in ("extremely", "seldom") and 0 < abs(v - 0.5) <= 1e-12 and abs(y - e) <= 1e-9:
                    ctx.hit("ambiguous:next to the branch point 0.5")
                else:
                    ctx.violation(f"{h}: value differs from the documented formula", {"hedge": h, "x": v}, e, y)
                continue
            if not (0.0 <= y <= 1.0):
                ctx.violation(f"{h}: result outside [0,1]", {"hedge": h, "x": v}, "[0,1]", y)
            if v not in (0.0, 1.0):
                ctx.nontrivial(h, v)
            if tab is not None and len(tab) < 400_000:
                tab[v] = y

    def check_relations(self):
        ctx = self.ctx
        ends = {"any": (1.0, 1.0), "not": (1.0, 0.0)}
        for h, tab in self.table.items():
            e0, e1 = ends.get(h, (0.0, 1.0))
            if 0.0 in tab:
                ctx.hit(f"law:{h}:endpoint0")
                if tab[0.0] != e0:
                    ctx.violation(f"{h}: does not map 0 to {e0}", {"hedge": h, "x": 0.0}, e0, tab[0.0])
            if 1.0 in tab:
                ctx.hit(f"law:{h}:endpoint1")
                if tab[1.0] != e1:
                    ctx.violation(f"{h}: does not map 1 to {e1}", {"hedge": h, "x": 1.0}, e1, tab[1.0])
            items = sorted(tab.items())
            sign = -1.0 if h == "not" else 1.0
            ctx.hit(f"law:{h}:monotonicity", max(0, len(items) - 1))
            for (x0, y0), (x1, y1) in zip(items, items[1:]):
                ctx.evaluated()
                if sign * (y1 - y0) < -1e-15:
                    ctx.violation(f"{h}: not {'antitone' if h == 'not' else 'monotone'}", {"hedge": h, "x_lo": x0, "x_hi": x1}, f"{'<=' if h == 'not' else '>='} {y0}", y1)
        very, some = self.table["very"], self.table["somewhat"]
        for x, y in very.items():
            ctx.hit("law:very<=x")
            if y > x:
                ctx.violation("very(x) > x", {"x": x}, f"<= {x}", y)
        for x, y in some.items():
            ctx.hit("law:x<=somewhat")
            if y < x:
                ctx.violation("somewhat(x) < x", {"x": x}, f">= {x}", y)


def inverse_pairs(ctx, fl, xs):
    """somewhat(very x), very(somewhat x), seldom(extremely x), extremely(seldom x), not(not x) through monitored
    calls; x below 2^-500 excluded from very/extremely compositions (squaring underflows)."""
    H = {h: getattr(fl, c)() for h, c in CLASSES.items()}
    X = np.asarray(xs, dtype=float)
    big = X[(X >= 2.0**-500)]
    ctx.hit("inverse_skipped:x<2^-500", int(X.size - big.size))
    for outer, inner, arg in [("somewhat", "very", big), ("very", "somewhat", X), ("seldom", "extremely", big), ("extremely", "seldom", X), ("not", "not", X)]:
        if arg.size == 0:
            continue
        back = H[outer].hedge(H[inner].hedge(arg))
        tol = np.full(arg.shape, 1e-12)
        if (outer, inner) == ("seldom", "extremely"):
            # extremely(x) = 1 - 2(1-x)^2 is rounded to a multiple of 1.1e-16 next to 1, and seldom takes a square root of
            # the small difference: the round trip is ill-conditioned like u/(1-x)   (conditioning-aware tolerance)
            tol = tol + 4e-16 / np.maximum(1.0 - arg, 1e-300)
        bad = np.argwhere(~(np.abs(back - arg) <= tol)).ravel()
        ctx.hit(f"law:{outer}({inner} x)==x", int(arg.size))
        ctx.evaluated(int(arg.size))
        for j in bad[:3]:
            ctx.violation(f"{outer}({inner}(x)) != x", {"x": float(arg[j])}, float(arg[j]), float(back[j]))


def run(ctx):
    fl = import_library()
    m = ctx.scale(10, 18)
    nrand = ctx.scale(5000, 2_000_000)
    ctx.rule = (
        f"every Hedge.hedge call observed: element compared with the scalar formula (1e-15); relations checked over the recorded table. "
        f"Workload: exhaustive dyadic grid k/2^{m}, 0.5 and its ±1..3 ulp neighbours, random doubles, float/0-d/1-D/2-D operands. "
        "distinct_nontrivial = distinct (hedge, x) judged with x not in {0,1}"
    )
    ctx.assumptions += ["formula tolerance 1e-15 absolute (sqrt and multiplication are correctly rounded)", "inverse pairs 1e-12 (+4e-16/(1-x) for seldom(extremely x), ill-conditioned next to 1), x >= 2^-500 for compositions that square first"]
    names = list(REF)
    funcs = {f"{CLASSES[h]}.hedge": getattr(fl, CLASSES[h]).hedge for h in names}
    ctx.excuse = lambda mechanism, observed, note: excusable(observed)
    with Reach(funcs) as reach, Probe() as probe:
        mon = HedgeMonitor(ctx, fl)
        mon.install(probe)
        mon.keeper = ResultKeeper(ctx)
        H = {h: getattr(fl, c)() for h, c in CLASSES.items()}
        if ctx.seed % 2 or ctx.shard % 2:
            H = {h: fl.settings.factory_manager.hedge.construct(h) for h in CLASSES}  # the instances the rule parser uses
        nb = [0.5]
        for _ in range(3):
            nb = [math.nextafter(nb[0], 0.0)] + nb + [math.nextafter(nb[-1], 1.0)]
        nchunk = ctx.scale(1, 16)
        full = np.array([k / 2**m for k in range(2**m + 1)])
        for i, rnd in ctx.cases("grid", nchunk):
            part = full[i::nchunk]
            part = np.concatenate([part, nb, [0.0, 1.0]])
            for h in names:
                H[h].hedge(part)
                # the ends of the scale as they really arrive: negative zero (a membership of -0.0 is a degree of 0), the
                # smallest positive doubles, the neighbours of 1
                for v in (-0.0, 5e-324, 2.2e-308, 1e-300, math.nextafter(1.0, 0.0)):
                    H[h].hedge(v)
                H[h].hedge(np.array([-0.0, 0.0, 5e-324, 1.0]))
                ctx.hit("workload:ends of the scale (negative zero, subnormals)")
                H[h].hedge(part.reshape(1, -1))
                for v in part[:: max(1, part.size // 16)]:
                    H[h].hedge(float(v))
                    H[h].hedge(np.array(v))
                H[h].hedge([0.0, 0.25, 0.5, 1.0])  # a plain list
                H[h].hedge(0)
                H[h].hedge(1)  # Python ints
                H[h].hedge(part[:1])  # a batch of one
                H[h].hedge(part[:8].astype(np.float32))
                H[h].hedge(part[:6].reshape(2, 3))
                # degrees as they come out of other tools: a numpy.matrix (elementwise all the same), batches without elements
                for odd in (np.asmatrix(part[:6].reshape(2, 3)), np.asmatrix(part[:4]), np.empty(0), np.empty((0, 3)), []):
                    try:
                        H[h].hedge(odd)
                    except Exception:
                        pass  # judged by the monitor
                ctx.hit("workload:matrix-typed and zero-size degrees")
            inverse_pairs(ctx, fl, part)
            ctx.sample("grid", {"grid": f"k/2^{m}, chunk {i} of {nchunk}", "neighbours_of_0.5": nb, "very(0.25)": float(H["very"].hedge(0.25)), "seldom(0.5)": float(H["seldom"].hedge(0.5))})
        nr = ctx.scale(4, 64)
        for i, rnd in ctx.cases("random", nr):
            k = nrand // nr
            xs = [rnd.random() if rnd.random() < 0.8 else min(1.0, max(0.0, rnd.choice([0.0, 0.5, 1.0]) + rnd.uniform(-1e-9, 1e-9))) for _ in range(k)]
            xs += [5e-324, 1e-300, 2.0**-500, 2.0**-537, 1e-17, 1 - 1e-16]
            X = np.array(xs)
            for h in names:
                H[h].hedge(X)
                H[h].hedge(X[: (X.size // 6) * 6].reshape(6, -1))
            # the same degrees in other memory layouts (what slicing, transposing and broadcasting hand to a hedge)
            M = X[:120].reshape(8, 15)
            row = np.array(X[:7])
            row.flags.writeable = False
            layouts = {
                "transposed": M.T, "fortran order": np.asfortranarray(M), "strided": X[:200:3], "reversed": X[:64][::-1], "column": M[:, :1],
                "3-D with swapped axes": X[:60].reshape(3, 4, 5).swapaxes(0, 2), "read-only row broadcast over a batch": np.broadcast_to(row, (5, 7)),
                "read-only": row, "matrix slice": M[1:6:2, ::4],
            }  # fmt: skip
            for what, A in layouts.items():
                for h in names:
                    H[h].hedge(A)
                ctx.hit("layout:" + what)
            inverse_pairs(ctx, fl, X)
            ctx.sample("random", {"x": xs[:5], "extremely": H["extremely"].hedge(np.array(xs[:5]))})
        # the same hedge instance given the same array object again after the array was refilled in place (stale results, aliasing)
        for i, rnd in ctx.cases("reuse", ctx.scale(40, 800)):
            buf = np.array([rnd.random() for _ in range(rnd.choice([1, 5, 64]))])
            for h in names:
                hedge = H[h]
                for _ in range(3):
                    r1 = hedge.hedge(buf)
                    keep = np.array(r1, copy=True)
                    buf[:] = [rnd.choice([0.0, 1.0, 0.5, rnd.random()]) for _ in range(buf.size)]
                    ctx.hit("event:buffer refilled in place")
                    if not np.array_equal(np.asarray(r1), keep) and h != "any":
                        ctx.violation(f"{h}: a returned result changes when the argument array is later modified (aliases its argument)", {"hedge": h}, keep, r1)
                hedge.hedge(buf)
        # the library under another floating-point type, and back: the same hedge objects, the same degrees as plain numbers and
        # as batches, first at the narrow type, then at the default one (nothing remembered from the one may answer the other)
        for i, rnd in ctx.cases("float-types", ctx.scale(6, 120)):
            degrees = [rnd.choice([0.1, 0.3, 0.7, 0.9, 0.5, 1 / 3, rnd.random()]) for _ in range(6)] + [0.0, 1.0]
            order = rnd.choice([("float16", "default"), ("float32", "default"), ("default", "float32", "default"), ("float16", "float32", "default")])
            for ftype in order:
                with hostile(fl, ftype, ctx):
                    for h in names:
                        for v in degrees:
                            H[h].hedge(v)
                            H[h].hedge(np.float64(v))
                        H[h].hedge(np.array(degrees))
                        H[h].hedge(np.array(degrees[:4]).reshape(2, 2))
                        H[h].hedge(np.array(degrees[0]))
        # the process in another state: warnings are errors, the library logs at DEBUG, other NumPy print options
        for i, rnd in ctx.cases("environments", len(ENVIRONMENTS)):
            X = np.array([rnd.random() for _ in range(40)] + [0.0, 1.0, 0.5, 5e-324, 1e-300, 1 - 1e-16])
            with hostile(fl, ENVIRONMENTS[i], ctx):
                for h in names:
                    H[h].hedge(X)
                    H[h].hedge(X[:12].reshape(3, 4))
                    for v in X[-8:]:
                        H[h].hedge(float(v))
        # large batches: sizes on both sides of every power of two from 2^12 to 2^17 (block-wise fast paths), 1-D and as a transposed
        # matrix; a sample of the elements is judged (always including both ends), and the inverse pairs go over the whole batch
        for i, rnd in ctx.cases("sizes", 1):
            gen = np.random.default_rng(ctx.seed + 7)
            for n in [2**k + d for k in range(12, 18) for d in (0, 1)] + [100_000]:
                x = gen.random(n)
                x[::101] = 0.5
                for h in names:
                    H[h].hedge(x)
                    if n % 2 == 0:
                        H[h].hedge(x.reshape(2, -1).T)
                if n <= 2**15 + 1:
                    inverse_pairs(ctx, fl, x)
                ctx.hit("workload:large batch")
        # a hedge given as a plain Python function of one degree: an array is either refused or handled element by element
        for i, rnd in ctx.cases("lambda", ctx.scale(300, 4000)):
            f, name = rnd.choice([(lambda x: min(1, 2 * x), "min(1, 2x)"), (lambda x: x * x if x < 0.5 else x, "x^2 below 1/2"), (lambda x: math.sqrt(x), "math.sqrt"), (lambda x: 1 if x > 0.5 else 0, "step")])
            hedge = fl.HedgeLambda("custom", f)
            xs = [rnd.choice([1.0, 0.0, 0.75, 0.25, 0.1, rnd.random()]) for _ in range(rnd.choice([1, 4, 6]))]
            for arg in (xs[0], np.array(xs), np.array(xs).reshape(1, -1), list(xs)):
                ctx.evaluated()
                try:
                    got = np.asarray(hedge.hedge(arg), dtype=float)
                except Exception:
                    ctx.hit("lambda hedge: argument refused")
                    continue
                want = np.array([f(v) for v in np.asarray(arg, dtype=float).ravel()], dtype=float).reshape(np.shape(arg))
                ctx.hit("lambda hedge: evaluated")
                # (the shape of the result is the function's own business for a single value; the values are not)
                if got.size != want.size or not np.allclose(got.ravel(), want.ravel(), rtol=0, atol=1e-15):
                    ctx.violation("a hedge given as a Python function is not applied element by element", {"function": name, "x": arg}, want, got)
        # several function hedges alive at once: each computes its own function, whatever was created after it
        for i, rnd in ctx.cases("several function hedges", ctx.scale(20, 400)):
            fs = rnd.sample([(lambda x: x * 0.5, "x/2"), (lambda x: x * x, "x^2"), (lambda x: 1.0 - x, "1-x"), (lambda x: x**0.5, "sqrt"), (lambda x: x * 0.0 + 1.0, "one")], 3)
            made = [(fl.HedgeLambda(f"h{k}" if i % 2 else "custom", f), f, name) for k, (f, name) in enumerate(fs)]
            if i % 3 == 0:
                try:
                    made += [(fl.HedgeFunction(fl.Function.create("g", formula)), f, formula) for formula, f in (("x * 0.5", lambda x: x * 0.5), ("x ^ 2.0", lambda x: x * x))]
                except Exception as ex:
                    ctx.hit(f"inconclusive:HedgeFunction not constructible: {type(ex).__name__}")
            X = np.array([0.0, 0.25, 0.5, 0.81, 1.0])
            for hedge, f, name in made + made[::-1]:
                ctx.evaluated()
                got = np.asarray(hedge.hedge(X), dtype=float)
                want = np.asarray(f(X), dtype=float)
                ctx.hit("event:function hedges created one after the other, all used afterwards")
                if got.shape != want.shape or not np.allclose(got, want, rtol=0, atol=1e-12):
                    ctx.violation("a hedge given as a function computes another hedge's function", {"function": name, "others": [n for _, _, n in made]}, want, got)
                    break
        mon.check_relations()
        probe.report(ctx)
        reach.report(ctx)
    ctx.exhaustive = True
    ctx.extra["exhaustive_space"] = f"all x = k/2^{m}, k = 0..2^{m}, for each of the 6 hedges (plus non-exhaustive random doubles)"
    ctx.require("float_type:float32", "float_type:float16", *[f"environment:{e}" for e in ENVIRONMENTS])
    ctx.require("workload:matrix-typed and zero-size degrees", "event:function hedges created one after the other, all used afterwards")
    for h in names:
        ctx.require(f"hook:{CLASSES[h]}.hedge", "event:buffer refilled in place", "layout:transposed", "layout:read-only row broadcast over a batch", "workload:ends of the scale (negative zero, subnormals)", "lambda hedge: evaluated", "workload:large batch", "law:results of earlier calls left alone")
    for h in ("extremely", "seldom"):
        for p in ("x<0.5", "x==0.5", "x>0.5"):
            ctx.require(f"piece:{h}:{p}")


def passive(ctx, fl, probe):
    """attach this property's always-on monitor to a foreign workload (the repository's test-suite, see vf/pytest_plugin.py)"""
    mon = HedgeMonitor(ctx, fl)
    mon.install(probe)
    return mon.check_relations
