"""C02 — Batch (vectorised) processing equals row-by-row float processing.

Deciding step: a shadow-replay monitor on Engine.process deep-copies the engine on entry of every batch call and, on
exit, replays the same rows one after another as plain Python floats on the copy (same starting state), then compares
output values, previous values, fuzzy outputs (term, degree per row) and raised exceptions row for row - exactly.
A second monitor on the Engine.input_values setter/getter checks the matrix <-> per-variable mapping."""
from __future__ import annotations

import copy
import math

import numpy as np

from ..core import describe, import_library
from ..gen import engines as E
from ..env import ENVIRONMENTS, Held, excusable, hostile, observe
from ..probe import Probe, Reach, plain_function

WORKERS = {"quick": 1, "thorough": 16}
nan, inf = math.nan, math.inf


def rows_of(v):
    return [float(x) for x in np.atleast_1d(np.asarray(v, dtype=float)).ravel()]


def feq(a, b):
    return a == b or (math.isnan(a) and math.isnan(b))


class ReplayMonitor:
    def __init__(self, ctx, fl, always=False):
        self.ctx, self.fl, self.always = ctx, fl, always

    def install(self, probe):
        self.probe = probe
        fl = self.fl
        probe.wrap(fl.Engine, "process", before=self._before, after=self._after)
        # property setter / getter of Engine.input_values
        original = fl.Engine.__dict__["input_values"]
        mon = self

        def fset(engine, values):
            original.fset(engine, values)
            if not probe.busy:
                probe.busy += 1
                try:
                    mon.after_set(engine, values)
                finally:
                    probe.busy -= 1

        fl.Engine.input_values = property(original.fget, fset, original.fdel, original.__doc__)
        probe._undo.append((fl.Engine, "input_values", original))

    def after_set(self, engine, values):
        ctx = self.ctx
        ctx.hit("hook:Engine.input_values.setter")
        ctx.evaluated()
        v = np.asarray(values, dtype=float)
        n = len(engine.input_variables)
        if v.ndim == 0:
            m = np.full((1, n), float(v))
        elif v.ndim == 1:
            m = v.reshape(-1, 1) if n == 1 else v.reshape(1, -1)
        else:
            m = v
        ctx.hit(f"input_values:{v.ndim}d")
        for k, iv in enumerate(engine.input_variables):
            want = np.clip(m[:, k], iv.minimum, iv.maximum) if iv.lock_range else m[:, k]
            got = np.atleast_1d(np.asarray(iv.value, dtype=float))
            if got.shape != want.shape or not all(feq(float(a), float(b)) for a, b in zip(got, want)):
                ctx.violation("Engine.input_values setter: a variable did not receive its column of the matrix", {"matrix": m, "variable": iv.name, "index": k}, want, got)
                return
        back = np.asarray(engine.input_values, dtype=float)
        wantm = np.column_stack([np.clip(m[:, k], iv.minimum, iv.maximum) if iv.lock_range else m[:, k] for k, iv in enumerate(engine.input_variables)])
        if back.shape != wantm.shape or not np.all((back == wantm) | (np.isnan(back) & np.isnan(wantm))):
            ctx.violation("Engine.input_values getter does not return the matrix that was set", {"matrix": m}, wantm, back)

    given: dict = {}  # id(engine) -> per-variable values the workload assigned for the next process()

    def _before(self, args, kwargs):
        engine = args[0]
        sizes = [int(np.size(v.value)) for v in engine.input_variables]
        n = max(sizes or [1])
        one_row_as_array = n == 1 and any(isinstance(v.value, np.ndarray) and v.value.ndim >= 1 for v in engine.input_variables)
        if n <= 1 and not self.always and not one_row_as_array:
            return None
        if any(s not in (1, n) for s in sizes):
            self.ctx.hit("out_of_domain:input variables hold batches of different sizes")
            return None
        if not all(type(rb.activation).__name__ == "General" for rb in engine.rule_blocks if rb.enabled):
            if not one_row_as_array:
                self.ctx.hit("out_of_domain:activation method other than General")
                return None
            self.ctx.hit("compare:one row given as an array under another activation method")
        try:
            shadow = copy.deepcopy(engine)
        except Exception as ex:
            self.ctx.hit(f"inconclusive:engine cannot be deep-copied for the shadow replay ({type(ex).__name__})")
            return None
        inputs = [np.array(v.value, dtype=float, copy=True) for v in engine.input_variables]
        given = self.given.pop(id(engine), None)
        if given is not None and len(given) == len(inputs):
            # the workload tells which values it handed to each variable (before any clipping to a locked range, which the
            # row-by-row assignment applies again): what one variable does to its own value must not reach another variable
            inputs = [np.array(g, dtype=float, copy=True) for g in given]
            self.ctx.hit("compare:inputs as the workload handed them over")
        return {"shadow": shadow, "n": n, "inputs": inputs}

    def _after(self, args, kwargs, st, result, exc):
        ctx, fl, engine = self.ctx, self.fl, args[0]
        if st is None:
            return
        shadow, n = st["shadow"], st["n"]
        case = {"engine": describe(engine), "inputs": st["inputs"], "state_before": [(ov.name, ov.value, ov.previous_value) for ov in shadow.output_variables]}
        ctx.evaluated()
        # replay row by row with plain floats
        per_row, float_exc = [], None
        for j in range(n):
            for v, arr in zip(shadow.input_variables, st["inputs"]):
                a = arr.ravel()
                v.value = float(a[j] if a.size > 1 else a[0])
            try:
                shadow.process()
            except Exception as ex:
                float_exc = (j, ex)
                break
            per_row.append(
                {
                    "values": [float(np.asarray(ov.value)) if np.size(ov.value) == 1 else ov.value for ov in shadow.output_variables],
                    "fuzzy": [[(a.term.name, float(np.asarray(a.degree))) for a in ov.fuzzy.terms] for ov in shadow.output_variables],
                    "text": [str(np.asarray(ov.fuzzy_value()).ravel()[0]) for ov in shadow.output_variables],
                }
            )
        if (exc is None) != (float_exc is None):
            if exc is not None:
                ctx.violation(f"batch mode raises {type(exc).__name__} on rows that float mode accepts", dict(case, error=repr(exc)[:300]), "no error", repr(exc)[:300])
            else:
                j, ex = float_exc
                ctx.violation(f"float mode raises {type(ex).__name__} on a row that batch mode accepts", dict(case, row=j, error=repr(ex)[:300]), "no error", repr(ex)[:300])
            return
        if exc is not None:
            ctx.hit("event:both modes raise")
            return
        ctx.hit("compare:batch vs float")
        interesting = False
        # (in single precision the two modes legitimately differ by rounding: NumPy combines a float32 *scalar* with a Python
        # float in double precision and a float32 *array* with it in single precision)
        narrow = np.dtype(fl.settings.float_type) != np.dtype(np.float64)
        for k, ov in enumerate(engine.output_variables):
            got = rows_of(ov.value)
            if len(got) == 1 and n > 1:
                got = got * n  # an output that received no batch legitimately holds one value for all rows
                ctx.hit("note:output holds a scalar for the whole batch")
            if len(got) != n:
                ctx.violation("an output variable holds a number of values different from the number of rows", dict(case, variable=ov.name), n, len(got))
                return
            for j in range(n):
                want = per_row[j]["values"][k]
                if np.size(want) != 1:
                    ctx.violation("processing one row as floats leaves several values in an output variable", dict(case, variable=ov.name, row=j), "one value", want)
                    return
                if not feq(got[j], want):
                    if abs(got[j] - want) <= (1e-9 if not narrow else 2e-5) * max(1.0, abs(want)):
                        ctx.hit("ulp_diff:output value")
                        continue
                    mech = "NaN row" if math.isnan(got[j]) or math.isnan(want) else "value"
                    ctx.violation(f"a row of the batch output differs from processing that row as floats ({mech})", dict(case, variable=ov.name, row=j, defuzzifier=str(ov.defuzzifier), settings=dict(lock_previous=ov.lock_previous, default=ov.default_value, lock_range=ov.lock_range)), want, got[j])
                    return
            # previous value after the batch = value before the last row in float mode ... which is the batch's own previous
            # fuzzy outputs, row by row
            theirs = ov.fuzzy.terms
            for j in range(n):
                mine = per_row[j]["fuzzy"][k]
                if len(mine) != len(theirs):
                    ctx.violation("fuzzy output of the batch has a different number of activated terms than float mode", dict(case, variable=ov.name, row=j), len(mine), len(theirs))
                    return
                for (name, d), act in zip(mine, theirs):
                    dd = np.asarray(act.degree, dtype=float).ravel()
                    if dd.size not in (1, n):
                        ctx.violation("an activated degree of the batch does not hold one value per row", dict(case, variable=ov.name, term=name), n, int(dd.size))
                        return
                    g = float(dd[j] if dd.size > 1 else dd[0])
                    if act.term.name != name or not feq(g, d):
                        if act.term.name == name and abs(g - d) <= (1e-12 if not narrow else 2e-5):
                            ctx.hit("ulp_diff:degree")
                            continue
                        ctx.violation("an activated degree of the batch differs from float mode", dict(case, variable=ov.name, row=j, term=name), d, g)
                        return
            # the fuzzy output written out (OutputVariable.fuzzy_value): one text per row
            try:
                texts = [str(t) for t in np.asarray(ov.fuzzy_value()).ravel()]
            except Exception as ex:
                ctx.violation(f"fuzzy_value() raises {type(ex).__name__} after a batch that float mode handles", dict(case, variable=ov.name), "texts", repr(ex)[:200])
                return
            if len(texts) == 1 and n > 1:
                texts = texts * n
            ctx.hit("compare:fuzzy_value texts")
            if narrow:
                ctx.hit("note:written fuzzy outputs not compared in single precision")
            elif len(texts) != n or any(texts[j] != per_row[j]["text"][k] for j in range(n)):
                j = next((j for j in range(min(n, len(texts))) if texts[j] != per_row[j]["text"][k]), 0)
                ctx.violation("the written fuzzy output (fuzzy_value) of the batch differs from float mode", dict(case, variable=ov.name, row=j, rows_expected=n, rows_got=len(texts)), per_row[j]["text"][k], texts[j] if j < len(texts) else None)
                return
            if any(math.isnan(per_row[j]["values"][k]) for j in range(n)) or ov.lock_previous:
                interesting = True
        # Engine.output_values must be readable whenever it is in float mode
        try:
            engine.output_values
            ctx.hit("compare:output_values readable")
        except Exception as ex:
            try:
                shadow.output_values
                ctx.violation(f"Engine.output_values raises {type(ex).__name__} after a batch although float mode can read it (outputs hold a scalar and a batch)", dict(case, shapes=[np.shape(ov.value) for ov in engine.output_variables]), "a matrix", repr(ex)[:200])
            except Exception:
                pass
        nan_then_value = any(any(math.isnan(x) for x in rows_of(a)) for a in st["inputs"])
        ctx.hit(f"batch_size:{'2-8' if n <= 8 else '9-64'}")
        for ov in engine.output_variables:
            ctx.hit(f"defuzzifier:{type(ov.defuzzifier).__name__}")
            ctx.hit(f"setting:lp={int(bool(ov.lock_previous))},default={'nan' if math.isnan(ov.default_value) else 'set'},lr={int(bool(ov.lock_range))}")
        if n >= 2 and (interesting or nan_then_value):
            ctx.nontrivial(describe(engine), tuple(tuple(rows_of(a)) for a in st["inputs"]), tuple((rows_of(v), rows_of(p)) for _, v, p in case["state_before"]).__repr__())


def batch_rows(rnd, spec, n):
    rows = E.rows(rnd, spec, n)
    # NaN / inf rows at the start, in the middle, at the end and in runs
    k = len(spec["inputs"])
    style = rnd.choice(["none", "start", "end", "middle", "run", "all"])
    bad = lambda: [rnd.choice([nan, nan, inf, -inf]) for _ in range(k)]  # noqa: E731
    if style == "start":
        rows[0] = bad()
    elif style == "end":
        rows[-1] = bad()
    elif style == "middle" and n > 2:
        rows[n // 2] = bad()
    elif style == "run" and n > 2:
        a = rnd.randrange(0, n - 1)
        for j in range(a, min(n, a + rnd.randint(2, 3))):
            rows[j] = bad()
    elif style == "all":
        rows = [bad() for _ in rows]
    return rows


def mix_families(rnd, spec):
    """an output variable whose terms are of two families (a constant next to shape terms) under an Automatic weighted
    defuzzifier, concluded by rules that fire on different parts of an input's range: whether the mixture is refused must
    not depend on how the rows are grouped"""
    out = rnd.choice(spec["outputs"])
    iv = spec["inputs"][0]
    lo, hi = iv["minimum"], iv["maximum"]
    mid = 0.5 * (lo + hi)
    iv["terms"] = [dict(cls="Rectangle", name="lower", params=[lo, mid], height=1.0), dict(cls="Rectangle", name="upper", params=[mid + 0.25 * (hi - mid), hi], height=1.0)] + iv["terms"]
    out["kind"], out["aggregation"] = "mixed", None
    out["defuzzifier"] = dict(cls=rnd.choice(["WeightedAverage", "WeightedSum"]), type="Automatic")
    out["terms"] = [dict(cls="Constant", name="k", params=[out["minimum"]], height=1.0), dict(cls="Triangle", name="tri", params=[out["minimum"], 0.5 * (out["minimum"] + out["maximum"]), out["maximum"]], height=1.0)]
    spec.pop("shared_defuzzifier", None)
    spec["route"] = "constructors"
    rules = []
    for a, c in (("lower", "k"), ("upper", "tri")):
        tree = ("prop", dict(var=iv["name"], hedges=[], term=a))
        concl = [dict(var=out["name"], hedges=[], term=c)]
        rules.append(dict(text=f"if {iv['name']} is {a} then {out['name']} is {c}", tree=tree, concl=concl, weight=1.0, enabled=True))
    # the other rules must not conclude on (or read) the rebuilt variable
    for rb in spec["blocks"]:
        rb["rules"] = [r for r in rb["rules"] if all(c["var"] != out["name"] for c in r["concl"]) and out["name"] not in r["text"].replace("(", " ").replace(")", " ").split()]
    spec["blocks"][0]["rules"] += rules
    spec["blocks"][0]["activation"] = dict(cls="General", args=[])


def run(ctx):
    fl = import_library()
    nengines = ctx.scale(350, 15000)
    maxn = ctx.scale(8, 64)
    ctx.rule = (
        f"every Engine.process call on a batch observed. Workload: {nengines} generated engines under General activation (Mamdani, Larsen, "
        "Takagi-Sugeno, Tsukamoto, inverse Tsukamoto, hybrid; every term/norm/defuzzifier type; every lock-previous/default/lock-range "
        f"setting; resolutions 1..1000) x histories of 1-4 consecutive batches of 1..{maxn} rows (state carried over) with NaN/+-inf rows "
        "at the start, middle, end and in runs, set per variable or through Engine.input_values (0-d, 1-D, 2-D); plus the shipped examples. "
        "distinct_nontrivial = distinct (engine, batch, starting state) with >= 2 rows and a NaN row or lock-previous"
    )
    ctx.assumptions += ["the oracle is the library itself in float mode, run on a deep copy taken at the entry of the batch call (Engine.copy correctness is C13's business)", "exact comparison; pairs within 1e-9 relative are counted as ulp_diff (none expected)"]
    funcs = {"Engine.process": fl.Engine.process, "OutputVariable.defuzzify": fl.OutputVariable.defuzzify, "Activated.membership": fl.Activated.membership, "Engine.input_values.setter": plain_function(fl.Engine, "input_values"), "scalar": fl.library.scalar}
    ctx.excuse = lambda mechanism, observed, note: excusable(observed)
    with Reach(funcs) as reach, Probe() as probe:
        mon = ReplayMonitor(ctx, fl)
        mon.install(probe)
        held = Held(ctx)
        for i, rnd in ctx.cases("engines", nengines):
            single_rows = i % 6 == 4  # every activation method, fed one row at a time - as arrays of one row
            spec = E.gen_engine(rnd, activations=("General",) if not single_rows else ("First", "Last", "Highest", "Lowest", "Proportional", "Threshold", "General"), allow_output_antecedent=not single_rows, d=rnd.choice([1, 3, 3]), resolutions=[1, 2, 5, 10, 37, 100, 1000], free_weights=True, share_defuzzifier=True, routes=True)
            if rnd.random() < 0.12:
                mix_families(rnd, spec)
                ctx.hit("workload:output variable mixing term families under an Automatic weighted defuzzifier")
            try:
                engine = E.build(fl, spec)
            except Exception as ex:
                ctx.hit(f"inconclusive:generated engine does not build: {type(ex).__name__}")
                continue
            history = []
            n = 0
            # one engine in eight lives in a process whose state is not the default one: warnings are errors, the library logs at
            # DEBUG, other NumPy print options.  (Single precision is left to the stream further down: with generated terms an
            # input that sits exactly on a step of a membership function is compared in single precision when it arrives in an
            # array and in double precision when it arrives as a float - NumPy's promotion rules - so the two modes legitimately
            # land on different sides of the step)
            envname = ENVIRONMENTS[(i // 8) % len(ENVIRONMENTS)] if i % 8 == 5 else None
            held.clear()
            for h in range(ctx.scale(3, 4) if rnd.random() < 0.7 else 1):
                n = n if (n > 1 and rnd.random() < 0.45) else rnd.choice([1, 2, 2, 3, 5, 8, maxn])
                if single_rows:
                    n = 1
                rows = batch_rows(rnd, spec, n)
                arr = np.array(rows, dtype=float)
                way = rnd.choice(["per-variable", "matrix", "matrix"])
                if envname == "float32":
                    way = "per-variable"
                with hostile(fl, envname, ctx):
                  try:
                    if h > 0 and n > 1 and rnd.random() < 0.4 and all(isinstance(v.value, np.ndarray) and np.shape(v.value) == (n,) and not v.lock_range and v.value.flags.writeable for v in engine.input_variables):
                        for k, v in enumerate(engine.input_variables):
                            v.value[:] = arr[:, k]  # the same array objects, refilled in place
                        way = "in-place refill"
                        ctx.hit("event:input arrays refilled in place")
                    elif n > 1 and len(engine.input_variables) >= 2 and rnd.random() < 0.2:
                        # two variables are handed windows of one recording (memory they share), the others their own arrays
                        way = "shared buffer"
                        buf = np.concatenate([arr[:, 0], arr[-1:, 1]])
                        given = [buf[:-1].copy(), buf[1:].copy()] + [arr[:, k].copy() for k in range(2, arr.shape[1])]
                        mon.given[id(engine)] = given
                        engine.input_variables[0].value = buf[:-1]
                        engine.input_variables[1].value = buf[1:]
                        for k, v in enumerate(engine.input_variables[2:], start=2):
                            v.value = arr[:, k]
                        ctx.hit("event:input variables given views of one buffer")
                    elif single_rows:
                        if rnd.random() < 0.5:
                            engine.input_values = arr[:1, :]  # a matrix of one row
                        else:
                            for k, v in enumerate(engine.input_variables):
                                v.value = arr[:1, k]  # arrays of one value
                    elif way == "per-variable" or n == 1 and rnd.random() < 0.5:
                        if envname == "float32":
                            mon.given[id(engine)] = [arr[:, k].copy() for k in range(arr.shape[1])]
                        for k, v in enumerate(engine.input_variables):
                            v.value = arr[:, k] if n > 1 else float(arr[0, k])
                    elif n == 1 and rnd.random() < 0.3:
                        engine.input_values = np.array(arr[0, 0])  # 0-d: the same value for every input
                    elif n == 1 or len(engine.input_variables) == 1 and rnd.random() < 0.5:
                        engine.input_values = arr[0, :] if n == 1 else arr[:, 0]  # 1-D
                    else:
                        engine.input_values = arr
                    if rnd.random() < 0.2:
                        observe(fl, engine, rnd, ctx, None)
                    engine.process()
                  except Exception:
                    pass  # judged by the monitor
                # what the previous call handed out (output values) stays what it was
                held.check("a later process()")
                for ov in engine.output_variables:
                    held.keep("OutputVariable.value", ov.value)
                history.append({"way": way, "rows": rows[:4]})
            if i < 2:
                ctx.sample("history", {"fll": describe(engine), "history": history, "outputs": [ov.value for ov in engine.output_variables]})
        # single precision and input values whose small differences matter (large readings, cancelling coefficients): both
        # modes see the same input values
        for i, rnd in ctx.cases("single precision, cancelling inputs", ctx.scale(10, 200)):
            c = rnd.choice([1.0, 2.0, 0.5])
            e = fl.Engine(
                "ts",
                input_variables=[fl.InputVariable("a", minimum=0.0, maximum=1e9, terms=[fl.Ramp("on", -1.0, 0.0)]), fl.InputVariable("b", minimum=0.0, maximum=1e9, terms=[fl.Ramp("on", -1.0, 0.0)])],
                output_variables=[fl.OutputVariable("y", minimum=-1e6, maximum=1e6, defuzzifier=fl.WeightedAverage(), terms=[])],
                rule_blocks=[fl.RuleBlock("rb", conjunction=fl.Minimum(), disjunction=fl.Maximum(), implication=fl.Minimum(), activation=fl.General(), rules=[fl.Rule.create("if a is on then y is diff")])],
                load=False,
            )
            e.output_variables[0].terms.append(fl.Linear("diff", [c, -c, rnd.choice([0.0, 1.0])], e))
            e.rule_blocks[0].load_rules(e)
            base = float(2 ** rnd.choice([24, 25, 26, 30]))
            A = np.array([base + rnd.choice([1.0, 3.0, 5.0, 7.0]) for _ in range(4)])
            B = np.array([base + rnd.choice([0.0, 2.0, 4.0]) for _ in range(4)])
            with hostile(fl, rnd.choice(["float32", "float32", "default"]), ctx):
                mon.given[id(e)] = [A.copy(), B.copy()]
                e.input_variables[0].value, e.input_variables[1].value = A, B
                try:
                    e.process()
                except Exception:
                    pass
            ctx.hit("workload:single precision with cancelling inputs")
        # a batch of several thousand rows (slicing / chunking fast paths) on a small engine
        for i, rnd in ctx.cases("large batch", ctx.scale(1, 6)):
            spec = E.gen_engine(rnd, activations=("General",), d=3, resolutions=[5, 10], max_inputs=2, max_rules=3, max_depth=1, free_weights=True, flags=False)
            try:
                engine = E.build(fl, spec)
            except Exception:
                continue
            n = [4500, 4500, 9000, 17000, 33000, 5000][i % 6] if ctx.thorough else 4500
            rows = batch_rows(rnd, spec, 40)
            arr = np.array([rows[rnd.randrange(len(rows))] for _ in range(n)], dtype=float)
            try:
                engine.input_values = arr
                engine.process()
            except Exception as ex:
                ctx.hit(f"event:large batch raised {type(ex).__name__}: {str(ex)[:80]}")
            ctx.hit("workload:large batch")
        from . import c01

        c01.examples(ctx, fl)
        probe.report(ctx)
        reach.report(ctx)
    ctx.require("workload:output variable mixing term families under an Automatic weighted defuzzifier", "workload:large batch", "event:input variables given views of one buffer", "compare:fuzzy_value texts", "compare:inputs as the workload handed them over")
    ctx.require("compare:one row given as an array under another activation method")
    ctx.require("workload:single precision with cancelling inputs", "environment:float32", "law:values handed out earlier are left alone", *[f"environment:{e}" for e in ENVIRONMENTS])
    ctx.require("hook:Engine.process", "compare:batch vs float", "hook:Engine.input_values.setter", "input_values:2d", "input_values:1d", "input_values:0d", "compare:output_values readable", "batch_size:2-8")
    for d in E.INTEGRAL + ["WeightedAverage", "WeightedSum"]:
        ctx.require(f"defuzzifier:{d}")
    for lp in (0, 1):
        for df in ("nan", "set"):
            for lr in (0, 1):
                ctx.require(f"setting:lp={lp},default={df},lr={lr}")


def passive(ctx, fl, probe):
    """attach this property's always-on monitor to a foreign workload (the repository's test-suite, see vf/pytest_plugin.py)"""
    mon = ReplayMonitor(ctx, fl)
    mon.install(probe)
    return None
