#!/bin/sh
# tools/runall.sh [quick|thorough] [seed]   - run every registered check, print one line per check
cd "$(dirname "$0")/.." || exit 2
tier=${1:-quick}; seed=${2:-0}
for p in $(/venv/bin/python -c "from vf.registry import CHECKS; print(' '.join(CHECKS))"); do
  s=$(date +%s.%N)
  out=$(VERIF_SEED=$seed ./check $p --tier $tier 2>&1); rc=$?
  e=$(date +%s.%N)
  printf "%s rc=%s %.1fs %s\n" "$p" "$rc" "$(echo "$e - $s" | bc)" "$(echo "$out" | grep -c '^KNOWN-FINDING') known; $(echo "$out" | grep -E '^(VIOLATION|INCONCLUSIVE)' | head -2 | tr '\n' ' ')"
done
