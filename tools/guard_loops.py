#!/usr/bin/env python3
"""one-off editor: wrap the body of `for i, rnd in ctx.cases(...)` loops of a property module in `with ctx.guarded():`"""
import re, sys
path = sys.argv[1]
lines = open(path).read().split("\n")
out = []
k = 0
while k < len(lines):
    line = lines[k]
    m = re.match(r"^(\s*)for .* in ctx\.cases\(.*\):\s*$", line)
    out.append(line)
    k += 1
    if not m:
        continue
    ind = m.group(1)
    if k < len(lines) and lines[k].strip().startswith("with ctx.guarded()"):
        continue
    out.append(ind + "    with ctx.guarded():")
    while k < len(lines) and (lines[k].strip() == "" or lines[k].startswith(ind + "    ")):
        # stop at blank line followed by dedent
        if lines[k].strip() == "":
            j = k
            while j < len(lines) and lines[j].strip() == "":
                j += 1
            if j >= len(lines) or not lines[j].startswith(ind + "    "):
                break
            out.append(lines[k])
        else:
            out.append("    " + lines[k])
        k += 1
open(path, "w").write("\n".join(out))
