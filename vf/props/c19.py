"""C19 — An engine reported ready can be processed.

Deciding step: monitors on Engine.is_ready (flag + error list) and Engine.process (return / raise) keep, per engine,
the last readiness verdict; a process() that raises on finite inputs after `ready` is a violation.  The workload
removes every subset of operators from valid generated engines and knows from the spec which operators are needed,
so the converse (every missing needed operator is reported) is checked too.  The four raise sites named in the
anchors are hooked to record which missing operator actually surfaced."""
from __future__ import annotations

import itertools
import math

import numpy as np

from ..core import describe, import_library
from ..gen import engines as E
from ..env import ENVIRONMENTS, excusable, hostile, observe
from ..probe import Probe, Reach

WORKERS = {"quick": 1, "thorough": 16}


def tree_ops(t):
    return set() if t[0] == "prop" else {t[0]} | tree_ops(t[1]) | tree_ops(t[2])


class ReadyMonitor:
    def __init__(self, ctx, fl):
        self.ctx, self.fl = ctx, fl
        self.verdict = {}  # id(engine) -> (ready, errors, fingerprint)
        self.needs = {}  # id(engine) -> [(component name, operator word)] known to be needed and missing (from the workload)

    def install(self, probe):
        fl = self.fl
        probe.wrap(fl.Engine, "is_ready", after=self._after_ready)
        probe.wrap(fl.Engine, "process", before=self._before_process, after=self._after_process)
        for cls, name, label in [(fl.Antecedent, "activation_degree", "raise-site:Antecedent.activation_degree"), (fl.Activated, "membership", "raise-site:Activated.membership"), (fl.Aggregated, "membership", "raise-site:Aggregated.membership"), (fl.OutputVariable, "defuzzify", "raise-site:OutputVariable.defuzzify")]:
            probe.wrap(cls, name, after=self._site(label), label=label)

    def _site(self, label):
        def after(args, kwargs, token, result, exc):
            if isinstance(exc, ValueError) and "expected a" in str(exc):
                self.ctx.hit(f"{label}:missing operator surfaced")

        return after

    @staticmethod
    def fingerprint(engine):
        return (
            tuple((id(rb.conjunction), id(rb.disjunction), id(rb.implication), id(rb.activation), rb.enabled, len(rb.rules)) for rb in engine.rule_blocks),
            tuple((id(ov.aggregation), id(ov.defuzzifier), ov.enabled, len(ov.terms)) for ov in engine.output_variables),
            len(engine.input_variables),
        )

    def _after_ready(self, args, kwargs, token, result, exc):
        ctx, engine = self.ctx, args[0]
        if exc is not None:
            ctx.violation(f"is_ready raises {type(exc).__name__}", {"engine": describe(engine)}, "a verdict", repr(exc)[:200])
            return
        errors = args[1] if len(args) > 1 and args[1] is not None else kwargs.get("errors")
        if errors is None:
            with_errors = []
            engine.is_ready(with_errors)  # monitors are silenced inside hooks
            errors = with_errors
        self.verdict[id(engine)] = (bool(result), list(errors), self.fingerprint(engine))
        ctx.hit(f"event:is_ready:{bool(result)}")
        ctx.evaluated()
        if bool(result) != (len(errors) == 0):
            ctx.violation("is_ready flag disagrees with its own error list", {"engine": engine.name, "errors": list(errors)}, len(errors) == 0, bool(result))
        # converse: needed-and-missing operators must be reported
        needs = self.needs.get(id(engine), [])
        for component, word in sorted(set(needs)):
            ctx.hit(f"converse:{word}")
            # (components are named in quotes; a rule block without a name is referred to by its index, and components that
            # share a name must each have their line)
            label = component if component.startswith("[") else f"'{component}'"
            if sum(1 for line in errors if word in line and label in line) < needs.count((component, word)):
                ctx.violation(f"a missing {word} operator that the rules/outputs need is not reported by is_ready", {"engine": describe(engine), "component": component, "errors": list(errors)}, f"an error mentioning the {word} of '{component}'", list(errors))

    def _before_process(self, args, kwargs):
        engine = args[0]
        v = self.verdict.get(id(engine))
        if v is None or v[2] != self.fingerprint(engine):
            return None
        finite = all(np.all(np.isfinite(np.asarray(iv.value, dtype=float))) for iv in engine.input_variables)
        activation = all(rb.activation is not None for rb in engine.rule_blocks)
        general_or_scalar = all(type(rb.activation).__name__ == "General" for rb in engine.rule_blocks) or all(np.size(iv.value) == 1 for iv in engine.input_variables)
        return {"ready": v[0], "errors": v[1], "finite": finite, "activation": activation, "ok_batch": general_or_scalar}

    def _after_process(self, args, kwargs, st, result, exc):
        ctx, engine = self.ctx, args[0]
        if st is None:
            ctx.hit("event:process without a current readiness verdict")
            return
        ctx.evaluated()
        if not (st["finite"] and st["activation"] and st["ok_batch"]):
            ctx.hit("out_of_domain:non-finite inputs, no activation method or batch under a vector-incapable method")
            return
        if st["ready"]:
            ctx.hit("event:process after ready")
            if exc is not None:
                what = "operator" if "expected a" in str(exc) else "other"
                ctx.violation(f"an engine reported ready raises {type(exc).__name__} when processed ({what})", {"engine": describe(engine), "inputs": [iv.value for iv in engine.input_variables], "error": repr(exc)[:300]}, "no error", repr(exc)[:300])
            else:
                ctx.nontrivial("ready-processed", describe(engine))
        else:
            ctx.hit(f"event:process after not-ready:{'raised' if exc is not None else 'returned'}")


def removable(spec):
    items = []
    for bi, rb in enumerate(spec["blocks"]):
        items += [("block", bi, "conjunction"), ("block", bi, "disjunction"), ("block", bi, "implication")]
    for oi, ov in enumerate(spec["outputs"]):
        items += [("output", oi, "aggregation"), ("output", oi, "defuzzifier")]
    return items


def needed_and_missing(spec, removed):
    out = []
    for kind, idx, what in removed:
        if kind == "block":
            rb = dict(spec["blocks"][idx])
            rb["name"] = rb["name"] or f"[{idx}]"
            rb["rules"] = [r for r in rb["rules"] if not r.get("broken")]  # a rule whose load is rejected needs nothing
            ops = set().union(*[tree_ops(r["tree"]) for r in rb["rules"]]) if rb["rules"] else set()
            if what == "conjunction" and "and" in ops:
                out.append((rb["name"], "conjunction"))
            if what == "disjunction" and "or" in ops:
                out.append((rb["name"], "disjunction"))
            if what == "implication":
                integral = {o["name"] for o in spec["outputs"] if o["kind"] == "integral" and ("output", spec["outputs"].index(o), "defuzzifier") not in removed}
                if any(c["var"] in integral for r in rb["rules"] for c in r["concl"]):
                    out.append((rb["name"], "implication"))
        else:
            ov = spec["outputs"][idx]
            if what == "defuzzifier":
                out.append((ov["name"], "defuzzifier"))
            if what == "aggregation" and ov["kind"] == "integral" and ("output", idx, "defuzzifier") not in removed:
                out.append((ov["name"], "aggregation"))
    return out


def apply_removal(spec, removed):
    import copy

    s = copy.deepcopy(spec)
    for kind, idx, what in removed:
        if kind == "block":
            s["blocks"][idx][what] = None
        else:
            s["outputs"][idx][what] = None
    return s


def run(ctx):
    fl = import_library()
    nengines = ctx.scale(40, 4000)
    cap = ctx.scale(48, 256)
    ctx.rule = (
        f"every Engine.is_ready / Engine.process pair observed. Workload: {nengines} valid generated engines (rules with and without and/or, integral and "
        f"weighted defuzzifiers, 1-2 blocks, 1-2 outputs) with every subset (up to {cap} per engine, all of them when fewer) of {{conjunction, disjunction, "
        "implication per rule block; aggregation, defuzzifier per output variable}} removed, is_ready() asked, then processed on finite rows "
        "(scalar and batch). distinct_nontrivial = distinct engines reported ready and then processed"
    )
    ctx.assumptions += ["needed operators are derived from the generator's rule trees and defuzzifier kinds", "all variables, blocks and rules are enabled in this workload (a disabled component may make a missing operator harmless; over-reporting is not a violation)"]
    funcs = {"Engine.is_ready": fl.Engine.is_ready, "Engine.process": fl.Engine.process}
    ctx.excuse = lambda mechanism, observed, note: excusable(observed) or excusable(note)
    keep_alive = []
    with Reach(funcs) as reach, Probe() as probe:
        mon = ReadyMonitor(ctx, fl)
        mon.install(probe)
        for i, rnd in ctx.cases("engines", nengines):
            spec = E.gen_engine(rnd, activations=("General",), flags=False, locks=False, d=3, resolutions=[5, 10, 37], max_depth=2, allow_output_antecedent=True, share_defuzzifier=True, free_weights=True, routes=True, broken_rules=True, big_blocks=0.08)
            if spec.get("big"):
                ctx.hit("workload:rule block with more than 32 rules")
            if len(spec["blocks"]) > 1 and rnd.random() < 0.5:
                # rule blocks that carry one name (or none at all)
                same = rnd.choice(["", "control"])
                for rb in spec["blocks"]:
                    rb["name"] = same
                if spec.get("route") in ("fll", "python"):
                    spec["route"] = "constructors"
                ctx.hit("workload:rule blocks with equal names")
            if E.rejected_rules(spec):
                ctx.hit("workload:engine with a rule whose load is rejected", "workload:rule blocks with equal names", "workload:rule block with more than 32 rules", "workload:long Mamdani block fed batches")
            items = removable(spec)
            subsets = [c for r in range(len(items) + 1) for c in itertools.combinations(items, r)]
            if len(subsets) > cap:
                subsets = subsets[: 1 + len(items)] + rnd.sample(subsets[1 + len(items) :], cap - 1 - len(items))
            rows = E.finite_rows(rnd, spec, 3)
            keep = []
            for removed in subsets:
                try:
                    engine = E.build(fl, apply_removal(spec, removed))
                except Exception as ex:
                    ctx.hit(f"inconclusive:engine does not build: {type(ex).__name__}")
                    continue
                keep.append(engine)
                mon.needs[id(engine)] = needed_and_missing(spec, removed)
                engine.is_ready()
                for k, row in enumerate(rows):
                    if k == 2:
                        arr = np.array(rows, dtype=float)
                        for j, v in enumerate(engine.input_variables):
                            v.value = arr[:, j]
                    else:
                        for v, x in zip(engine.input_variables, row):
                            v.value = x
                    try:
                        engine.process()
                    except Exception:
                        pass  # judged by the monitor
                ctx.hit(f"removed:{len(removed)}")
            # the same engine object, asked once while complete, is then reconfigured (monotonic-term outputs given an integral
            # defuzzifier, operators taken out) and asked again: the verdict is about the engine as it is now
            try:
                import copy as _copy

                engine = E.build(fl, spec)
                keep.append(engine)
                mon.needs[id(engine)] = []
                envname = ENVIRONMENTS[(i // 2) % len(ENVIRONMENTS)] if i % 2 == 1 else None
                with hostile(fl, envname, ctx):
                    engine.is_ready()
                    for v, x in zip(engine.input_variables, rows[0]):
                        v.value = x
                    try:
                        engine.process()
                    except Exception:
                        pass  # judged by the monitor
                    # ... and with its rule blocks switched off: nothing fires, every fuzzy output is empty
                    for rb in engine.rule_blocks:
                        rb.enabled = False
                    engine.is_ready()
                    try:
                        engine.process()
                    except Exception:
                        pass
                    for rb, rbs in zip(engine.rule_blocks, spec["blocks"]):
                        rb.enabled = rbs["enabled"]
                    engine.is_ready()
                    ctx.hit("event:ready engine processed with every rule block switched off")
                spec2 = _copy.deepcopy(spec)
                for o, ov in zip(spec2["outputs"], engine.output_variables):
                    if o["kind"] in ("tsukamoto", "inverse") and o["defuzzifier"] and not spec.get("shared_defuzzifier"):
                        o["kind"], o["aggregation"] = "integral", "Maximum"
                        ov.defuzzifier, ov.aggregation = fl.Centroid(10), fl.Maximum()
                        ctx.hit("event:weighted output given an integral defuzzifier on the live engine")
                removed = rnd.sample(items, rnd.randint(1, min(3, len(items))))
                if rnd.random() < 0.8:
                    removed = sorted(set(removed) | {("block", bi, "implication") for bi in range(len(spec["blocks"]))})
                for kind, idx, what in removed:
                    setattr(engine.rule_blocks[idx] if kind == "block" else engine.output_variables[idx], what, None)
                mon.needs[id(engine)] = needed_and_missing(spec2, removed)
                observe(fl, engine, rnd, ctx, None, k=1, check=False)
                engine.is_ready()
                for v, x in zip(engine.input_variables, rows[1]):
                    v.value = x
                try:
                    engine.process()
                except Exception:
                    pass
                ctx.hit("event:engine reconfigured after a first verdict and asked again")
            except Exception as ex:
                ctx.hit(f"inconclusive:live reconfiguration: {type(ex).__name__}")
            # structural incompleteness: no inputs / no outputs / an output without terms / no rule blocks / an empty rule block
            for what in ("no-inputs", "no-outputs", "no-terms", "no-blocks", "empty-block", "no-activation"):
                try:
                    engine = E.build(fl, spec)
                except Exception:
                    break
                if what == "no-inputs":
                    # keep rules that do not need inputs out of the picture: the engine simply has no input variables
                    engine.input_variables.clear()
                elif what == "no-outputs":
                    engine.output_variables.clear()
                elif what == "no-terms":
                    engine.output_variables[0].terms.clear()
                elif what == "no-blocks":
                    engine.rule_blocks.clear()
                elif what == "empty-block":
                    engine.rule_blocks[0].rules.clear()
                else:
                    engine.rule_blocks[0].activation = None
                keep.append(engine)
                engine.is_ready()
                for v, x in zip(engine.input_variables, rows[0]):
                    v.value = x
                try:
                    engine.process()
                except Exception:
                    pass
                ctx.hit(f"structural:{what}")
            mon.needs.clear()
            mon.verdict.clear()
            if i < 2:
                ctx.sample("engine", {"fll": str(E.build(fl, spec))[:1200], "removable": [list(x) for x in items], "subsets_tried": len(subsets)})
        # an input variable and an output variable that carry one name (the measured and the commanded `power`): the rules
        # conclude about the output variable, which decides what the engine needs
        for i, rnd in ctx.cases("shared names", ctx.scale(40, 800)):
            name = rnd.choice(["power", "level", "T"])
            integral = i % 3 != 2
            for missing in (None, "implication", "aggregation", "defuzzifier", "conjunction"):
                iv = [fl.InputVariable(name, minimum=0.0, maximum=1.0, terms=[fl.Triangle("low", 0.0, 0.25, 0.5), fl.Triangle("high", 0.5, 0.75, 1.0)]), fl.InputVariable("rate", minimum=0.0, maximum=1.0, terms=[fl.Ramp("up", 0.0, 1.0), fl.Ramp("down", 1.0, 0.0)])]
                ov = fl.OutputVariable(name, minimum=0.0, maximum=1.0, aggregation=fl.Maximum(), defuzzifier=fl.Centroid(20) if integral else fl.WeightedAverage(), terms=[fl.Triangle("more", 0.0, 0.5, 1.0), fl.Triangle("less", 0.0, 0.25, 0.5)] if integral else [fl.Constant("more", 1.0), fl.Constant("less", 0.25)])
                rb = fl.RuleBlock("rb", conjunction=fl.Minimum(), disjunction=fl.Maximum(), implication=fl.Minimum(), activation=fl.General(), rules=[fl.Rule.create(f"if rate is up and rate is not down then {name} is more"), fl.Rule.create(f"if rate is down then {name} is less")])
                try:
                    engine = fl.Engine("shared", input_variables=iv, output_variables=[ov], rule_blocks=[rb])
                except Exception as ex:
                    ctx.hit(f"inconclusive:shared-name engine does not build: {type(ex).__name__}")
                    continue
                keep_alive.append(engine)
                needs = []
                if missing == "implication":
                    rb.implication = None
                    needs = [("rb", "implication")] if integral else []
                elif missing == "aggregation":
                    ov.aggregation = None
                    needs = [(name, "aggregation")] if integral else []
                elif missing == "defuzzifier":
                    ov.defuzzifier = None
                    needs = [(name, "defuzzifier")]
                elif missing == "conjunction":
                    rb.conjunction = None
                    needs = [("rb", "conjunction")]
                mon.needs[id(engine)] = needs
                engine.is_ready()
                iv[0].value, iv[1].value = rnd.random(), rnd.random()
                try:
                    engine.process()
                except Exception:
                    pass  # judged by the monitor
            ctx.hit("workload:input and output variable of one name")
        # every activation method, the finite input values given one row at a time in the ways a caller has: floats, 0-d arrays,
        # arrays of one value, a matrix of one row
        for i, rnd in ctx.cases("single rows", ctx.scale(40, 800)):
            spec = E.gen_engine(rnd, activations=("First", "Last", "Highest", "Lowest", "Proportional", "Threshold", "General"), flags=False, locks=False, d=3, resolutions=[5, 10], max_depth=2, allow_output_antecedent=False, free_weights=True)
            try:
                engine = E.build(fl, spec)
            except Exception as ex:
                ctx.hit(f"inconclusive:engine does not build: {type(ex).__name__}")
                continue
            keep_alive.append(engine)
            mon.needs[id(engine)] = []
            for k, row in enumerate(E.finite_rows(rnd, spec, 4)):
                engine.is_ready()
                if k == 3:
                    engine.input_values = np.array([row], dtype=float)
                else:
                    for v, x in zip(engine.input_variables, row):
                        v.value = [float, np.array, lambda x: np.array([x])][k](x)
                try:
                    engine.process()
                except Exception:
                    pass  # judged by the monitor
            ctx.hit("workload:single rows in every form under every activation method")
        # rules that mention an input variable without terms through `any`, and rules whose connectives are written in capitals:
        # if the library takes them (the pinned one refuses both), an engine it then reports ready can be processed
        for i, rnd in ctx.cases("unusual rules", ctx.scale(30, 600)):
            for variant in ("term-less variable with any", "connectives in capitals", "both"):
                for missing in (None, "conjunction", "disjunction", "implication"):
                    ivs = [fl.InputVariable("a", minimum=0.0, maximum=1.0, terms=[fl.Triangle("low", 0.0, 0.25, 0.5), fl.Triangle("high", 0.5, 0.75, 1.0)]), fl.InputVariable("spare", minimum=0.0, maximum=1.0)]
                    ov = fl.OutputVariable("o", minimum=0.0, maximum=1.0, aggregation=fl.Maximum(), defuzzifier=fl.Centroid(20), terms=[fl.Triangle("x", 0.0, 0.5, 1.0)])
                    AND, OR = ("AND", "Or") if variant != "term-less variable with any" else ("and", "or")
                    spare = "spare is any" if variant != "connectives in capitals" else "a is any"
                    texts = [f"if a is low {AND} {spare} then o is x", f"if a is high {OR} a is not low then o is x"]
                    rb = fl.RuleBlock("rb", conjunction=fl.Minimum(), disjunction=fl.Maximum(), implication=fl.Minimum(), activation=fl.General(), rules=[fl.Rule.create(t) for t in texts])
                    if missing:
                        setattr(rb, missing, None)
                    engine = fl.Engine("unusual", input_variables=ivs, output_variables=[ov], rule_blocks=[rb], load=False)
                    try:
                        rb.load_rules(engine)
                        ctx.hit("unusual rules: loaded")
                    except Exception:
                        ctx.hit("unusual rules: refused")
                    keep_alive.append(engine)
                    mon.needs[id(engine)] = []
                    engine.is_ready()
                    ivs[0].value, ivs[1].value = rnd.random(), rnd.random()
                    try:
                        engine.process()
                    except Exception:
                        pass  # judged by the monitor
            ctx.hit("workload:rules over a term-less variable / with connectives in capitals")
        mon.needs.clear()
        mon.verdict.clear()
        # engines with disabled variables, rule blocks and rules: which operators are still needed is not derived here (a
        # disabled component may make a missing operator harmless), so only "ready implies processable" is judged
        for i, rnd in ctx.cases("disabled-components", ctx.scale(60, 4000)):
            spec = E.gen_engine(rnd, activations=("General",), flags=True, locks=True, d=3, resolutions=[5, 10], max_depth=2, allow_output_antecedent=True, free_weights=True, routes=True)
            for part in rnd.sample(spec["inputs"] + spec["outputs"] + spec["blocks"], 1):
                part["enabled"] = False
            items = removable(spec)
            subsets = [c for r in range(len(items) + 1) for c in itertools.combinations(items, r)]
            if len(subsets) > cap // 2:
                subsets = subsets[: 1 + len(items)] + rnd.sample(subsets[1 + len(items) :], cap // 2 - 1 - len(items))
            rows = E.finite_rows(rnd, spec, 2)
            keep = []
            for removed in subsets:
                try:
                    engine = E.build(fl, apply_removal(spec, removed))
                except Exception as ex:
                    ctx.hit(f"inconclusive:engine does not build: {type(ex).__name__}")
                    continue
                keep.append(engine)
                mon.needs[id(engine)] = []
                engine.is_ready()
                for row in rows:
                    for v, x in zip(engine.input_variables, row):
                        v.value = x
                    try:
                        engine.process()
                    except Exception:
                        pass  # judged by the monitor
            ctx.hit("workload:engines with disabled components")
            mon.needs.clear()
            mon.verdict.clear()
        # long rule blocks on the usual Mamdani operators (Maximum aggregation, an integral defuzzifier), fed batches
        for i, rnd in ctx.cases("long blocks", ctx.scale(6, 200)):
            spec = E.gen_engine(rnd, activations=("General",), flags=False, locks=False, d=3, resolutions=[5, 10], max_depth=1, kinds=("integral",), big_blocks=1.0, allow_output_antecedent=False)
            for o in spec["outputs"]:
                o["aggregation"] = rnd.choice(["Maximum", "Maximum", o["aggregation"]])
            try:
                engine = E.build(fl, spec)
            except Exception as ex:
                ctx.hit(f"inconclusive:engine does not build: {type(ex).__name__}")
                continue
            mon.needs[id(engine)] = []
            engine.is_ready()
            rows = E.finite_rows(rnd, spec, 4)
            for form in ("row", "batch", "batch"):
                arr = np.array(rows, dtype=float)
                for j, v in enumerate(engine.input_variables):
                    v.value = arr[:, j] if form == "batch" else float(arr[0, j])
                try:
                    engine.process()
                except Exception:
                    pass  # judged by the monitor
            ctx.hit("workload:long Mamdani block fed batches")
            mon.needs.clear()
            mon.verdict.clear()
        # one weighted defuzzifier object shared by output variables of different kinds (as Engine.configure does), processed
        # repeatedly: a ready engine must stay processable whatever the defuzzifier saw before
        for i, rnd in ctx.cases("shared-defuzzifier", ctx.scale(30, 600)):
            spec = E.gen_engine(rnd, activations=("General",), flags=False, locks=False, d=3, kinds=("ts", "tsukamoto", "inverse"), max_depth=1, allow_output_antecedent=False)
            if len(spec["outputs"]) < 2 or len({o["kind"] for o in spec["outputs"]}) < 2:
                continue
            for o in spec["outputs"]:
                o["defuzzifier"]["type"] = "Automatic"
            spec["shared_defuzzifier"] = rnd.choice(["WeightedAverage", "WeightedSum"])
            if rnd.random() < 0.5:
                spec["outputs"].reverse()
            try:
                engine = E.build(fl, spec)
            except Exception:
                continue
            engine.is_ready()
            for row in E.finite_rows(rnd, spec, 3):
                for v, x in zip(engine.input_variables, row):
                    v.value = x
                try:
                    engine.process()
                except Exception:
                    pass
            ctx.hit("workload:shared defuzzifier object")
        probe.report(ctx)
        reach.report(ctx)
    ctx.require("workload:rules over a term-less variable / with connectives in capitals", "workload:single rows in every form under every activation method")
    ctx.require("workload:input and output variable of one name", "event:engine reconfigured after a first verdict and asked again", "event:weighted output given an integral defuzzifier on the live engine", *[f"environment:{e}" for e in ENVIRONMENTS])
    ctx.require("workload:shared defuzzifier object", "workload:engines with disabled components", "workload:engine with a rule whose load is rejected", "workload:rule blocks with equal names", "workload:rule block with more than 32 rules", "workload:long Mamdani block fed batches")
    ctx.require("hook:Engine.is_ready", "hook:Engine.process", "event:is_ready:True", "event:is_ready:False", "event:process after ready", "converse:conjunction", "converse:disjunction", "converse:implication", "converse:aggregation", "converse:defuzzifier", "raise-site:Antecedent.activation_degree:missing operator surfaced", "raise-site:OutputVariable.defuzzify:missing operator surfaced")


def passive(ctx, fl, probe):
    """attach this property's always-on monitor to a foreign workload (the repository's test-suite, see vf/pytest_plugin.py)"""
    mon = ReadyMonitor(ctx, fl)
    mon.install(probe)
    return None
