"""Hook layer: monitors are attached from outside by replacing attributes of the real classes of the imported
working tree.  Wrappers record and return; they never raise into the observed code."""
from __future__ import annotations

import contextlib
import sys
import traceback

from . import env as _env


def snapshot_arrays(args, kwargs):
    """`before` hook: copies of the ndarray arguments (index -> copy), so that the oracle judges the values the callee was
    given and an in-place modification of an argument is noticed"""
    import numpy as np

    return {i: a.copy() for i, a in enumerate(args) if isinstance(a, np.ndarray)}


def check_unmutated(ctx, where, args, snap, index=1):
    """returns the argument as it was before the call; reports a violation if the callee changed it in place"""
    import numpy as np

    arg = args[index]
    if not snap or index not in snap:
        return arg
    before = snap[index]
    same = before.shape == arg.shape and bool(np.all((before == arg) | ((before != before) & (arg != arg))))
    if not same:
        ctx.violation(f"{where} modifies its array argument in place", {"argument_before": before, "argument_after": arg}, before, arg)
    return before


class ResultKeeper:
    """Remembers the last few arrays a hooked function returned (each with a copy taken at return) and notices when a later
    call changes one of them: results that share a buffer, per instance or per module.  Only for workloads that do not write
    into results themselves (not attached to foreign workloads); results that share memory with an argument are not kept."""

    def __init__(self, ctx, keep=6):
        import collections

        self.ctx, self.held = ctx, collections.deque(maxlen=keep)

    def after_call(self, label, result, args=()):
        import numpy as np

        for arr, copy, made_by in list(self.held):
            same = arr.shape == copy.shape and bool(np.all((arr == copy) | ((arr != arr) & (copy != copy))))
            if not same:
                self.ctx.violation(f"{made_by}: an array returned by an earlier call is changed by a later call (results share a buffer)", {"later_call": label, "returned": copy, "now": arr}, copy, arr)
                self.held.remove((arr, copy, made_by))
        if isinstance(result, np.ndarray) and result.ndim > 0 and result.size > 0:
            if not any(isinstance(a, np.ndarray) and np.shares_memory(result, a) for a in args):
                self.held.append((result, result.copy(), label))
                self.ctx.hit("law:results of earlier calls left alone")


_REMOVE = object()


class Probe:
    """A set of installed wrappers that can be removed again.  `busy` is the re-entrancy flag: while an oracle
    itself calls library code the monitors stay silent."""

    def __init__(self):
        self._undo = []
        self.busy = 0
        self.calls = {}
        self.errors = []

    @contextlib.contextmanager
    def quiet(self):
        self.busy += 1
        try:
            yield
        finally:
            self.busy -= 1

    def wrap(self, cls, name, after=None, before=None, label=None):
        """Replace cls.name by a wrapper.  before(self, args, kwargs) -> token ; after(self, args, kwargs, token,
        result, exception).  Both run with the monitors silenced; an exception inside them is recorded as a monitor
        error (which makes the run inconclusive), never propagated."""
        original = cls.__dict__.get(name)
        inherited = original is None
        if inherited:
            # the class takes the method from a base class: the wrapper is installed on this class only (calls through other
            # subclasses of the base are not this hook's business) and removed again afterwards
            for base in cls.__mro__[1:]:
                if name in base.__dict__:
                    original = base.__dict__[name]
                    break
            if original is None:
                raise AttributeError(f"{cls.__name__}.{name} is not defined on the class or its bases")
        label = label or f"{cls.__name__}.{name}"
        self.calls.setdefault(label, 0)
        probe = self
        is_static = isinstance(original, staticmethod)
        is_class = isinstance(original, classmethod)
        func = original.__func__ if (is_static or is_class) else original

        def wrapper(*args, **kwargs):
            if probe.busy:
                return func(*args, **kwargs)
            probe.calls[label] += 1
            token = None
            if before is not None:
                probe.busy += 1
                try:
                    if _env.ACTIVE:
                        with _env.neutral():
                            token = before(args, kwargs)
                    else:
                        token = before(args, kwargs)
                except Exception:
                    probe.errors.append((label, "before", traceback.format_exc()))
                finally:
                    probe.busy -= 1
            try:
                result = func(*args, **kwargs)
            except BaseException as ex:
                if after is not None:
                    probe.busy += 1
                    try:
                        if _env.ACTIVE:
                            with _env.neutral():
                                after(args, kwargs, token, None, ex)
                        else:
                            after(args, kwargs, token, None, ex)
                    except Exception:
                        probe.errors.append((label, "after-raise", traceback.format_exc()))
                    finally:
                        probe.busy -= 1
                raise
            if after is not None:
                probe.busy += 1
                try:
                    if _env.ACTIVE:
                        with _env.neutral():
                            after(args, kwargs, token, result, None)
                    else:
                        after(args, kwargs, token, result, None)
                except Exception:
                    probe.errors.append((label, "after", traceback.format_exc()))
                finally:
                    probe.busy -= 1
            return result

        wrapper.__name__ = getattr(func, "__name__", name)
        wrapper.__wrapped__ = func
        wrapper.__doc__ = getattr(func, "__doc__", None)
        if is_static:
            new = staticmethod(wrapper)
        elif is_class:
            # keep classmethod semantics: cls is passed as first positional argument
            new = classmethod(wrapper)
        else:
            new = wrapper
        setattr(cls, name, new)
        self._undo.append((cls, name, _REMOVE if inherited else original))
        return func

    def wrap_property_setter(self, cls, name, after, label=None):
        """Hook the setter of a property: after(obj, value_given, value_stored_before)."""
        original = cls.__dict__[name]
        label = label or f"{cls.__name__}.{name}.setter"
        self.calls.setdefault(label, 0)
        probe = self

        def fset(obj, value):
            if probe.busy:
                return original.fset(obj, value)
            probe.calls[label] += 1
            original.fset(obj, value)
            probe.busy += 1
            try:
                with _env.neutral():
                    after(obj, value)
            except Exception:
                probe.errors.append((label, "setter", traceback.format_exc()))
            finally:
                probe.busy -= 1

        setattr(cls, name, property(original.fget, fset, original.fdel, original.__doc__))
        self._undo.append((cls, name, original))

    def remove(self):
        while self._undo:
            cls, name, original = self._undo.pop()
            if original is _REMOVE:
                try:
                    delattr(cls, name)
                except AttributeError:
                    pass
                continue
            setattr(cls, name, original)

    def __enter__(self):
        return self

    def __exit__(self, *exc):
        self.remove()
        return False

    def report(self, ctx):
        """Copy hook call counts into the evidence counters; monitor errors make the run inconclusive."""
        for label, n in self.calls.items():
            ctx.hit(f"hook:{label}", n)
        for label, phase, tb in self.errors[:3]:
            ctx.hit(f"inconclusive:monitor error in {label}/{phase}: {tb.strip().splitlines()[-1][:100]}")
            print(tb, file=sys.stderr)
        self.calls = {k: 0 for k in self.calls}
        self.errors = []


def plain_function(cls, name):
    """the function object behind cls.name (unwrapping staticmethod/classmethod/property/functools wrappers), or None"""
    obj = cls.__dict__.get(name, None)
    if obj is None:
        obj = getattr(cls, name, None)
    for attr in ("__func__", "fget", "__wrapped__"):
        inner = getattr(obj, attr, None)
        if inner is not None:
            obj = inner
    return obj if hasattr(obj, "__code__") else None


class Reach:
    """sys.monitoring LINE recorder for the anchored functions of a property: which of their lines ran.  Each line
    is reported once and then disabled, so the cost is paid once per line."""

    TOOL = 3

    def __init__(self, functions):
        """functions: {label: function or code object}; grab them *before* monkeypatching."""
        self.codes = {}
        for label, f in functions.items():
            code = getattr(f, "__code__", None) or getattr(getattr(f, "__func__", None), "__code__", None) or getattr(getattr(f, "fget", None), "__code__", None) or getattr(getattr(f, "__wrapped__", None), "__code__", None)
            if code is None and hasattr(f, "co_code"):
                code = f
            if code is not None:
                self.codes[code] = label
        self.seen = {label: set() for label in self.codes.values()}
        self.active = False

    def __enter__(self):
        mon = sys.monitoring
        try:
            mon.use_tool_id(self.TOOL, "vf-reach")
        except ValueError:
            return self
        self.active = True

        def on_line(code, line):
            label = self.codes.get(code)
            if label is not None:
                self.seen[label].add(line)
            return mon.DISABLE

        mon.register_callback(self.TOOL, mon.events.LINE, on_line)
        for code in self.codes:
            mon.set_local_events(self.TOOL, code, mon.events.LINE)
        return self

    def __exit__(self, *exc):
        if self.active:
            mon = sys.monitoring
            for code in self.codes:
                mon.set_local_events(self.TOOL, code, 0)
            mon.register_callback(self.TOOL, mon.events.LINE, None)
            mon.free_tool_id(self.TOOL)
            self.active = False
        return False

    def report(self, ctx):
        out = {}
        for code, label in self.codes.items():
            import dis

            lines = sorted({ln for _, ln in dis.findlinestarts(code) if ln is not None and ln != code.co_firstlineno})
            seen = sorted(self.seen[label] & set(lines)) if lines else sorted(self.seen[label])
            out[label] = {"lines_reached": len(seen), "lines_total": len(lines), "missed": [ln for ln in lines if ln not in self.seen[label]][:12]}
            if not self.seen[label]:
                ctx.hit(f"unreached:{label}")
            else:
                ctx.hit(f"reached:{label}")
        ctx.extra["anchored_lines"] = out
