"""Text mutators for the rejection / normalisation properties: token deletion, duplication, substitution (keywords,
names, numbers, parentheses), truncation at token boundaries, reordering; benign FLL reformatting; and an injector that
applies exactly one error of a listed class to a grammar-generated rule."""
from __future__ import annotations

import re

KEYWORDS = ["if", "then", "is", "and", "or", "with", "(", ")", "any", "not", "very", "somewhat", "extremely", "seldom"]
JUNK = ["", "xyz", "1.0", "nan", "inf", "-", "#", "is is", "then then", "0x10", "1e5", ".", ",", "((", "))", "with", "if", "  "]


def split_tokens(text):
    return re.findall(r"[()]|[^\s()]+", text)


def join_tokens(tokens):
    return " ".join(tokens)


def mutate_tokens(rnd, tokens, names=()):
    """one random edit; returns (kind, new token list)"""
    toks = list(tokens)
    kind = rnd.choice(["delete", "duplicate", "substitute-keyword", "substitute-name", "substitute-junk", "insert", "swap", "truncate", "delete-span"])
    if not toks:
        return "insert", [rnd.choice(KEYWORDS)]
    i = rnd.randrange(len(toks))
    if kind == "delete":
        del toks[i]
    elif kind == "duplicate":
        toks.insert(i, toks[i])
    elif kind == "substitute-keyword":
        toks[i] = rnd.choice(KEYWORDS)
    elif kind == "substitute-name":
        toks[i] = rnd.choice(list(names) or ["zzz"])
    elif kind == "substitute-junk":
        toks[i] = rnd.choice(JUNK)
    elif kind == "insert":
        toks.insert(i, rnd.choice(KEYWORDS + list(names) + JUNK))
    elif kind == "swap" and len(toks) > 1:
        j = rnd.randrange(len(toks))
        toks[i], toks[j] = toks[j], toks[i]
    elif kind == "truncate":
        toks = toks[:i]
    elif kind == "delete-span":
        j = min(len(toks), i + rnd.randint(2, 4))
        del toks[i:j]
    return kind, toks


def mutate_rule(rnd, text, names=()):
    kind, toks = mutate_tokens(rnd, split_tokens(text), names)
    if rnd.random() < 0.3:  # a second edit
        kind2, toks = mutate_tokens(rnd, toks, names)
        kind = f"{kind}+{kind2}"
    return kind, join_tokens(toks)


def mutate_fll(rnd, text, names=()):
    """one structural or token-level edit of an FLL document"""
    lines = text.split("\n")
    kind = rnd.choice(["line-delete", "line-duplicate", "line-swap", "line-truncate", "token", "token", "token", "key", "value-junk", "colon", "document-truncate"])
    idx = [k for k, l in enumerate(lines) if l.strip()]
    if not idx:
        return "empty", text
    i = rnd.choice(idx)
    if kind == "line-delete":
        del lines[i]
    elif kind == "line-duplicate":
        lines.insert(i, lines[i])
    elif kind == "line-swap":
        j = rnd.choice(idx)
        lines[i], lines[j] = lines[j], lines[i]
    elif kind == "line-truncate":
        toks = lines[i].split()
        lines[i] = " ".join(toks[: rnd.randrange(len(toks) + 1)])
    elif kind == "token":
        indent = lines[i][: len(lines[i]) - len(lines[i].lstrip())]
        k2, toks = mutate_tokens(rnd, lines[i].split(), names)
        kind = f"token-{k2}"
        lines[i] = indent + " ".join(toks)
    elif kind == "key":
        if ":" in lines[i]:
            key, rest = lines[i].split(":", 1)
            lines[i] = rnd.choice(["enabled", "range", "term", "rule", "Engine", "InputVariable", "OutputVariable", "RuleBlock", "bogus", "lock-range", "default", "activation", "defuzzifier", ""]) + ":" + rest
    elif kind == "value-junk":
        if ":" in lines[i]:
            key, rest = lines[i].split(":", 1)
            lines[i] = key + ": " + rnd.choice(JUNK + ["true", "false", "none", "Maximum", "Centroid", "General", "1 2 3", "Triangle"])
    elif kind == "colon":
        lines[i] = lines[i].replace(":", rnd.choice(["", "::", " "]), 1)
    else:
        cut = rnd.randrange(len(text) + 1)
        return kind, text[:cut]
    return kind, "\n".join(lines)


def reformat_fll(rnd, text):
    """benign reformatting that an importer may or may not accept: number formats, blanks, comments, none/empty values"""
    out = []
    for line in text.split("\n"):
        c = rnd.random()
        if c < 0.15:
            line = line + rnd.choice(["   ", "  # trailing comment", "\t"])
        elif c < 0.3:
            line = re.sub(r"(?<![\w.])(\d+)\.000\b", lambda m: rnd.choice([m.group(1), m.group(1) + ".0", m.group(1) + ".000000", m.group(0)]), line)
        elif c < 0.4:
            line = re.sub(r" +", lambda m: " " * rnd.randint(1, 3), line.strip())
            line = rnd.choice(["", "  ", "    "]) + line
        elif c < 0.45:
            line = re.sub(r"\b0\.(\d+)", lambda m: "." + m.group(1), line)
        out.append(line)
        if rnd.random() < 0.05:
            out.append(rnd.choice(["", "# a comment line", "   "]))
    return "\n".join(out)


# ---- exactly one injected error of a listed class -----------------------------------------------------------------------------

ERROR_CLASSES = [
    "missing if", "missing is", "missing then", "missing connective", "missing weight value", "missing variable", "missing term", "missing operand",
    "unknown variable", "unknown term", "unknown hedge", "parenthesis added", "parenthesis removed", "non-numeric weight", "trailing token",
]  # fmt: skip


def inject(rnd, cls, text, variables, terms):
    """text: a grammatical rule 'if ... then ... [with w]' with whitespace separated tokens (parentheses spaced).
    Returns the rule with exactly one error of class `cls`, or None when the class does not apply to this rule."""
    toks = text.split()
    th = toks.index("then")
    ant = toks[1:th]
    is_at = [k for k, t in enumerate(toks) if t == "is"]
    if cls == "missing if":
        return " ".join(toks[1:])
    if cls == "missing then":
        return " ".join(toks[:th] + toks[th + 1 :])
    if cls == "missing is":
        k = rnd.choice(is_at)
        return " ".join(toks[:k] + toks[k + 1 :])
    if cls == "missing connective":
        ops = [k for k, t in enumerate(toks) if t in ("and", "or")]
        if not ops:
            return None
        k = rnd.choice(ops)
        return " ".join(toks[:k] + toks[k + 1 :])
    if cls == "missing weight value":
        base = toks[: toks.index("with")] if "with" in toks else toks
        return " ".join(base + ["with"])
    if cls == "non-numeric weight":
        base = toks[: toks.index("with")] if "with" in toks else toks
        return " ".join(base + ["with", rnd.choice(["high", "0.5.1", "1,0", "--1", "one", "0.5x", "1e", "+-1"])])
    if cls == "trailing token":
        if "with" in toks:
            return " ".join(toks + [rnd.choice(["0.5", "x", "and", "then"])])
        return " ".join(toks + [rnd.choice(["x", "0.5", "is", ")"])])
    if cls == "missing variable":
        k = rnd.choice(is_at)
        return " ".join(toks[: k - 1] + toks[k:])
    if cls == "missing term":
        # the token after the hedges of a proposition
        cands = []
        for k in is_at:
            j = k + 1
            while j < len(toks) and toks[j] in ("not", "very", "somewhat", "extremely", "seldom"):
                j += 1
            if j < len(toks) and toks[j] not in ("any", "and", "or", "then", "with", ")", "("):
                cands.append(j)
        if not cands:
            return None
        j = rnd.choice(cands)
        return " ".join(toks[:j] + toks[j + 1 :])
    if cls == "missing operand":
        ops = [k for k, t in enumerate(toks) if t in ("and", "or")]
        if not ops:
            return None
        k = rnd.choice(ops)
        # remove the whole proposition that follows the operator (up to the next connective / parenthesis / then / with)
        j = k + 1
        if j < len(toks) and toks[j] == "(":
            return None
        while j < len(toks) and toks[j] not in ("and", "or", "then", "with", ")", "("):
            j += 1
        return " ".join(toks[: k + 1] + toks[j:])
    if cls == "unknown variable":
        k = rnd.choice(is_at)
        return " ".join(toks[: k - 1] + ["nosuchvariable"] + toks[k:])
    if cls == "unknown term":
        cands = [k + 1 for k in is_at if k + 1 < len(toks) and toks[k + 1] not in ("any", "not", "very", "somewhat", "extremely", "seldom")]
        if not cands:
            return None
        j = rnd.choice(cands)
        # (a name no variable has; or the right name with punctuation stuck to it, which is another - unknown - name)
        wrong = rnd.choice(["nosuchterm", "nosuchterm", toks[j] + ".", toks[j] + ";", f"'{toks[j]}'", f"[{toks[j]}]", toks[j] + "?", "-" + toks[j]])
        return " ".join(toks[:j] + [wrong] + toks[j + 1 :])
    if cls == "unknown hedge":
        k = rnd.choice(is_at)
        if toks[k + 1] == "any":
            return None
        return " ".join(toks[: k + 1] + ["hardly"] + toks[k + 1 :])
    if cls == "parenthesis added":
        k = rnd.randrange(1, th + 1)
        # only at proposition boundaries, so that exactly the balance is broken
        bounds = [1] + [j + 1 for j in range(1, th) if toks[j] in ("and", "or", "(")] + [th]
        k = rnd.choice(bounds)
        return " ".join(toks[:k] + [rnd.choice(["(", ")"])] + toks[k:])
    if cls == "parenthesis removed":
        ps = [k for k in range(1, th) if toks[k] in ("(", ")")]
        if not ps:
            return None
        k = rnd.choice(ps)
        return " ".join(toks[:k] + toks[k + 1 :])
    raise KeyError(cls)
