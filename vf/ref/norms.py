"""Scalar reference formulas of the T-norms and S-norms (written from the class docstrings of fuzzylite/norm.py),
one float at a time, `math` only."""
from __future__ import annotations

TNORMS = ["AlgebraicProduct", "BoundedDifference", "DrasticProduct", "EinsteinProduct", "HamacherProduct", "Minimum", "NilpotentMinimum"]
SNORMS = ["AlgebraicSum", "BoundedSum", "DrasticSum", "EinsteinSum", "HamacherSum", "Maximum", "NilpotentMaximum", "NormalizedSum", "UnboundedSum"]
# same-family pairs:  S(a,b) = 1 - T(1-a, 1-b)
DUAL = dict(zip(TNORMS, ["AlgebraicSum", "BoundedSum", "DrasticSum", "EinsteinSum", "HamacherSum", "Maximum", "NilpotentMaximum"]))
# norms whose arithmetic is exact on a dyadic grid (only comparisons, min/max, a+b, a+b-1)
EXACT = {"BoundedDifference", "DrasticProduct", "Minimum", "NilpotentMinimum", "BoundedSum", "DrasticSum", "Maximum", "NilpotentMaximum", "UnboundedSum"}

REF = {
    "AlgebraicProduct": lambda a, b: a * b,
    "BoundedDifference": lambda a, b: max(0.0, a + b - 1.0),
    "DrasticProduct": lambda a, b: min(a, b) if max(a, b) == 1.0 else 0.0,
    "EinsteinProduct": lambda a, b: (a * b) / (2.0 - (a + b - a * b)),
    "HamacherProduct": lambda a, b: 0.0 if a + b == 0.0 else (a * b) / (a + b - a * b),
    "Minimum": lambda a, b: min(a, b),
    "NilpotentMinimum": lambda a, b: min(a, b) if a + b > 1.0 else 0.0,
    "AlgebraicSum": lambda a, b: a + b - a * b,
    "BoundedSum": lambda a, b: min(1.0, a + b),
    "DrasticSum": lambda a, b: max(a, b) if min(a, b) == 0.0 else 1.0,
    "EinsteinSum": lambda a, b: (a + b) / (1.0 + a * b),
    # the quotient is ill-conditioned next to (1,1); in real arithmetic it lies in [max(a,b), 1], so the model clamps it there
    "HamacherSum": lambda a, b: 1.0 if a * b == 1.0 else min(1.0, max(a, b, (a + b - 2.0 * a * b) / (1.0 - a * b))),
    "Maximum": lambda a, b: max(a, b),
    "NilpotentMaximum": lambda a, b: max(a, b) if a + b < 1.0 else 1.0,
    "NormalizedSum": lambda a, b: (a + b) / max(1.0, a + b),
    "UnboundedSum": lambda a, b: a + b,
}


def branch(name, a, b):
    """Which side of the definition's condition (a, b) falls on; None for norms without a condition.
    Returns (piece label, distance to the branch point)."""
    if name in ("NilpotentMinimum", "NilpotentMaximum", "BoundedDifference", "BoundedSum", "NormalizedSum"):
        s = a + b
        return ("sum>1" if s > 1.0 else "sum<1" if s < 1.0 else "sum==1"), abs(s - 1.0)
    if name == "DrasticProduct":
        m = max(a, b)
        return ("max==1" if m == 1.0 else "max<1"), abs(m - 1.0)
    if name == "DrasticSum":
        m = min(a, b)
        return ("min==0" if m == 0.0 else "min>0"), abs(m)
    if name == "HamacherProduct":
        return ("a+b==0" if a + b == 0.0 else "a+b>0"), abs(a + b)
    if name == "HamacherSum":
        return ("ab==1" if a * b == 1.0 else "ab<1"), abs(a * b - 1.0)
    return None, 1.0
