#!/usr/bin/env python3
"""Rewrite the table of independently written changes in DESIGN.md (§8.5) from seeded/*/meta.json."""
import json, re, glob
rows = []
tot = {"own_quick": 0, "own_thorough": 0, "other": 0, "none": 0}
for d in sorted(glob.glob("/verif/seeded/*/")):
    m = json.load(open(d + "meta.json"))
    pid = m["property"]
    own = [r for r in m.get("ran", []) if r["check"] == pid and r["verdict"] == "caught"]
    others = sorted({r["check"] for r in m.get("ran", []) if r["check"] != pid and r["verdict"] == "caught"})
    how = "quick" if any(r["tier"] == "quick" for r in own) else ("thorough" if own else "—")
    tot["own_quick" if how == "quick" else "own_thorough" if how == "thorough" else "other" if others else "none"] += 1
    clean = lambda s, n: re.sub(r"\s+", " ", (s or "").replace("|", "/"))[:n]
    rows.append(f"| {m['id']} | {clean(m.get('summary'), 230)} | {clean(m.get('needs_to_manifest'), 200)} | {how} | {', '.join(others) or '-'} |")
s = open("/verif/DESIGN.md").read()
lines = s.split("\n")
idx = [i for i, l in enumerate(lines) if re.match(r"^\| C\d\d-(A|B|R\d)", l)]
first, last = idx[0], idx[-1]
# only the first contiguous table (the seeded one) is replaced
end = first
while end + 1 < len(lines) and re.match(r"^\| C\d\d-", lines[end + 1]):
    end += 1
lines[first : end + 1] = rows
open("/verif/DESIGN.md", "w").write("\n".join(lines))
print(len(rows), "rows;", tot)
