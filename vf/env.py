"""Hostile environments and observation helpers shared by the property modules.

* `hostile(fl, name)`: run a piece of workload under a legitimate but non-default environment of the process - Python
  warnings turned into errors, the library in debug mode (its logger at DEBUG with a handler that formats every record),
  NumPy print options a user may have set, another `float_type`.  The property's monitors stay attached and judge as
  usual: what the library computes must not depend on any of these.
* `neutral()`: what a monitor wraps around its own arithmetic while a hostile environment is in force (the oracle must
  not be the one that trips over the environment).
* `excusable(exc)`: the only environment-induced failure the pinned code itself is entitled to - NumPy's overflow
  RuntimeWarning (errstate over="warn" is NumPy's default and `exp` of a large argument is part of the documented
  formulas) when warnings are errors.
* `Held`: keeps objects the library handed out (values, degrees, flags, tables) together with a copy taken at that
  moment and reports a later step that changes one of them.
* `observe(...)`: read-only-looking calls on an engine and its components, made between two steps of a workload."""
from __future__ import annotations

import contextlib
import copy
import io
import logging
import warnings

import numpy as np

ACTIVE: list[str] = []  # names of the hostile environments in force (innermost last)

ENVIRONMENTS = ["warnings-as-errors", "debug-logging", "print-options"]


class _Sink(logging.Handler):
    """formats every record (so that lazily formatted messages are built) and throws it away"""

    def __init__(self):
        super().__init__(level=logging.DEBUG)
        self.records = 0
        self.setFormatter(logging.Formatter("%(asctime)s %(levelname)s %(module)s::%(funcName)s()[%(lineno)d] %(message)s"))

    def emit(self, record):
        self.records += 1
        self.format(record)


@contextlib.contextmanager
def hostile(fl, name, ctx=None):
    """name: one of ENVIRONMENTS, "float32", "float16", "errstate-raise", or None / "default" for no change"""
    if name in (None, "default"):
        yield
        return
    ACTIVE.append(name)
    if ctx is not None:
        ctx.hit(f"environment:{name}")
    try:
        if name == "warnings-as-errors":
            with warnings.catch_warnings():
                warnings.simplefilter("error")
                yield
        elif name == "debug-logging":
            logger = fl.settings.logger
            level, propagate = logger.level, logger.propagate
            sink = _Sink()
            logger.addHandler(sink)
            logger.propagate = False
            fl.settings.debugging = True
            try:
                yield
            finally:
                logger.removeHandler(sink)
                logger.setLevel(level)
                logger.propagate = propagate
                if ctx is not None:
                    ctx.hit("environment:debug-logging:records formatted", sink.records)
        elif name == "print-options":
            with np.printoptions(threshold=6, edgeitems=1, precision=2, suppress=True, linewidth=30, floatmode="maxprec"):
                yield
        elif name in ("float32", "float16"):
            with fl.settings.context(float_type=getattr(np, name)):
                yield
        elif name == "errstate-raise":
            with np.errstate(all="raise"):
                yield
        else:
            raise KeyError(name)
    finally:
        ACTIVE.pop()


@contextlib.contextmanager
def neutral():
    """the environment the oracles compute in, whatever the workload has set up around the observed call"""
    if not ACTIVE:
        yield
        return
    with warnings.catch_warnings(), np.errstate(all="ignore"), np.printoptions(threshold=1000, edgeitems=3, precision=8, suppress=False, linewidth=75, floatmode="maxprec"):
        warnings.simplefilter("ignore")
        yield


def excusable(exc):
    """an exception that the environment, not the library, is responsible for: NumPy's overflow / underflow warnings turned
    into errors (the documented formulas contain exp of unbounded arguments; errstate over="warn" is NumPy's default)"""
    if isinstance(exc, BaseException):
        text, is_warning = str(exc), isinstance(exc, (RuntimeWarning, FloatingPointError))
    else:
        text = str(exc)
        is_warning = "RuntimeWarning" in text or "FloatingPointError" in text
    return bool(is_warning and ("overflow encountered" in text or "underflow encountered" in text))


def _same(a, b):
    if isinstance(a, np.ndarray) or isinstance(b, np.ndarray):
        a, b = np.asarray(a), np.asarray(b)
        if a.shape != b.shape:
            return False
        if a.dtype.kind in "fc" or b.dtype.kind in "fc":
            return bool(np.all((a == b) | ((a != a) & (b != b))))
        return bool(np.all(a == b))
    if isinstance(a, (list, tuple)) and isinstance(b, (list, tuple)):
        return len(a) == len(b) and all(_same(x, y) for x, y in zip(a, b))
    if isinstance(a, dict) and isinstance(b, dict):
        return a.keys() == b.keys() and all(_same(a[k], b[k]) for k in a)
    try:
        return bool(a == b or (a != a and b != b))
    except Exception:
        return a is b


class Held:
    """Objects the library handed out, each with a copy taken when it was handed out.  `check()` reports the ones a later
    step has changed (a value buffer that is written again, a flag cleared in place, a table that is being reused).
    Only for the check's own workloads: nothing there writes into what it was given."""

    def __init__(self, ctx, keep=64):
        self.ctx, self.items, self.cap = ctx, [], keep

    def keep(self, label, obj):
        if isinstance(obj, np.ndarray):
            snap = obj.copy()
        elif isinstance(obj, (list, dict, tuple)):
            try:
                snap = copy.deepcopy(obj)
            except Exception:
                return obj
        else:
            return obj  # immutable scalars cannot change under us
        if len(self.items) >= self.cap:
            self.items.pop(0)
        self.items.append((label, obj, snap))
        self.ctx.hit("law:values handed out earlier are left alone")
        return obj

    def check(self, when=""):
        for item in list(self.items):
            label, obj, snap = item
            if not _same(obj, snap):
                self.ctx.violation(f"{label}: an object handed out earlier is changed by a later step", {"later_step": when, "handed_out": snap, "now": obj}, snap, obj)
                self.items.remove(item)

    def clear(self):
        self.items.clear()


OBSERVERS = [
    "str(engine)", "repr(engine)", "fll export", "python export", "is_ready", "infer_type", "fuzzy_value", "fuzzify", "highest_membership", "iteration",
    "input_values", "output_values", "values", "rule texts", "term parameters", "lookups", "grouped_terms", "activation_degree(term)", "copy", "deepcopy",
    "is_loaded", "fld header", "variables", "defuzzifier text",
]  # fmt: skip


def engine_state(engine):
    """what an engine holds that a later step reads: values and previous values, fuzzy outputs, what the rules carry"""
    def arr(x):
        return np.array(x, dtype=float, copy=True) if np.ndim(x) or isinstance(x, (float, int, np.floating, np.ndarray)) else x

    state = {}
    for v in engine.input_variables:
        state[f"value of {v.name}"] = arr(v.value)
    for ov in engine.output_variables:
        state[f"value of {ov.name}"] = arr(ov.value)
        state[f"previous value of {ov.name}"] = arr(ov.previous_value)
        state[f"fuzzy output of {ov.name}"] = [(id(a.term), arr(a.degree), id(a.implication)) for a in ov.fuzzy.terms]
        state[f"settings of {ov.name}"] = (ov.enabled, ov.lock_range, ov.lock_previous, arr(ov.default_value), arr(ov.minimum), arr(ov.maximum), id(ov.defuzzifier), id(ov.aggregation))
    for bi, rb in enumerate(engine.rule_blocks):
        for ri, r in enumerate(rb.rules):
            state[f"rule {bi}.{ri}"] = (r.text, r.enabled, bool(r.is_loaded()), arr(r.weight), arr(r.activation_degree), arr(r.triggered))
    return state


def state_difference(before, after):
    for k in before:
        if k not in after or not _same(before[k], after[k]):
            return k
    return next((k for k in after if k not in before), None)


def observe(fl, engine, rnd, ctx=None, held=None, k=None, only=None, check=True):
    """read-only-looking calls made between two steps; none of them may change what the engine holds (checked: the state
    before and after each call is compared) nor what a later step computes, and what they return is kept (held) so that a
    later step that rewrites it is noticed.  Exceptions out of an observer are the observer's own business (an engine that
    cannot be printed is not this workload's subject) and are ignored."""
    names = only or rnd.sample(OBSERVERS, k if k is not None else rnd.randint(1, 4))
    for name in names:
        try:
            before = engine_state(engine) if (check and ctx is not None) else None
            _observe(fl, engine, rnd, name, held)
            if ctx is not None:
                ctx.hit("event:observer between steps", f"observer:{name}")
            if before is not None:
                what = state_difference(before, engine_state(engine))
                ctx.evaluated()
                if what is not None:
                    ctx.violation(f"a read-only call ({name}) changes what the engine holds", {"call": name, "changed": what, "engine": str(engine)[:2000]}, before.get(what), engine_state(engine).get(what))
        except Exception as ex:  # noqa: BLE001
            if ctx is not None:
                ctx.hit(f"observer raised:{name}:{type(ex).__name__}")


def _observe(fl, engine, rnd, name, held):
    keep = (lambda label, obj: held.keep(label, obj)) if held is not None else (lambda label, obj: obj)
    if name == "str(engine)":
        str(engine)
    elif name == "repr(engine)":
        repr(engine)
    elif name == "fll export":
        fl.FllExporter().to_string(engine)
    elif name == "python export":
        fl.PythonExporter().to_string(engine)
    elif name == "is_ready":
        engine.is_ready()
    elif name == "infer_type":
        engine.infer_type()
    elif name == "fuzzy_value":
        for ov in engine.output_variables:
            ov.fuzzy_value()
    elif name == "fuzzify":
        for v in engine.input_variables:
            v.fuzzy_value()
            v.fuzzify(v.value)
    elif name == "highest_membership":
        for v in engine.variables:
            if np.ndim(v.value) == 0:
                v.highest_membership(v.value)
    elif name == "iteration":
        for rb in engine.rule_blocks:
            len(rb)
            list(rb)
        for v in engine.variables:
            len(v)
            list(v)
    elif name == "input_values":
        keep("Engine.input_values", engine.input_values)
    elif name == "output_values":
        keep("Engine.output_values", engine.output_values)
        for ov in engine.output_variables:
            keep("OutputVariable.value", ov.value)
            keep("OutputVariable.previous_value", ov.previous_value)
    elif name == "values":
        keep("Engine.values", engine.values)
    elif name == "rule texts":
        for rb in engine.rule_blocks:
            for r in rb.rules:
                str(r)
                r.text
                if r.is_loaded():
                    r.antecedent.infix()
                    r.antecedent.postfix()
                    r.antecedent.prefix()
                keep("Rule.activation_degree", r.activation_degree)
                keep("Rule.triggered", r.triggered)
    elif name == "term parameters":
        for v in engine.variables:
            for t in v.terms:
                t.parameters()
                str(t)
                repr(t)
    elif name == "lookups":
        for v in engine.input_variables:
            engine.input_variable(v.name)
            engine.variable(v.name)
            for t in v.terms:
                v.term(t.name)
        for ov in engine.output_variables:
            engine.output_variable(ov.name)
        for rb in engine.rule_blocks:
            engine.rule_block(rb.name)
    elif name == "grouped_terms":
        for ov in engine.output_variables:
            ov.fuzzy.grouped_terms()
            ov.fuzzy.highest_activated_term()
            ov.fuzzy.parameters()
    elif name == "activation_degree(term)":
        for ov in engine.output_variables:
            for t in ov.terms:
                ov.fuzzy.activation_degree(t)
    elif name == "copy":
        copy.copy(engine)
    elif name == "deepcopy":
        copy.deepcopy(engine)
    elif name == "is_loaded":
        for rb in engine.rule_blocks:
            for r in rb.rules:
                r.is_loaded()
    elif name == "fld header":
        fl.FldExporter().header(engine)
    elif name == "variables":
        list(engine.variables)
        [v.range for v in engine.variables]
        [v.drange for v in engine.variables]
    elif name == "defuzzifier text":
        for ov in engine.output_variables:
            str(ov.defuzzifier)
            repr(ov.defuzzifier)
            str(ov.aggregation)
    else:
        raise KeyError(name)


def stringio():
    return io.StringIO()
