#!/bin/sh
# re-run every kept seeded change against the current checks (quick tier; thorough only if quick misses)
cd "$(dirname "$0")/.." || exit 2
for d in seeded/*/; do
  id=$(basename "$d")
  extra=$(/venv/bin/python -c "
import json; m=json.load(open('$d/meta.json')); ps=[]
for r in m.get('ran', []):
    if r['check'] not in ps: ps.append(r['check'])
print(','.join(ps) or m['property'])")
  echo "== $id ($extra)"
  tools/seeded.py "$d" "$id" --props "$extra" --thorough 2>&1 | grep -E "^(repo tests|demo:|\./check)" 
done
