"""Reference semantics of Function formulas: the documented operator table (precedence, associativity, arity), an own
precedence-climbing parser, a tree evaluator with its own operator meanings, an independent RPN machine for postfix
strings, a printer (minimal / redundant parentheses, random spacing) and a typed random generator."""
from __future__ import annotations

import math
import re

import numpy as np

# name -> (precedence, right_assoc, arity).  Higher binds tighter (documented order: ! ~  >  ^ ** .- .+  >  * / %  >  + -  >  and  >  or)
OPERATORS = {
    "!": (100, True, 1), "~": (100, True, 1),
    "^": (90, True, 2), "**": (90, True, 2), ".-": (90, True, 1), ".+": (90, True, 1),
    "*": (80, False, 2), "/": (80, False, 2), "%": (80, False, 2),
    "+": (70, False, 2), "-": (70, False, 2),
    "and": (60, False, 2), "or": (50, False, 2),
}  # fmt: skip
FUNCTIONS = {
    "gt": 2, "ge": 2, "eq": 2, "neq": 2, "le": 2, "lt": 2, "min": 2, "max": 2,
    "acos": 1, "asin": 1, "atan": 1, "ceil": 1, "cos": 1, "cosh": 1, "exp": 1, "abs": 1, "fabs": 1, "floor": 1, "log": 1, "log10": 1,
    "round": 1, "sin": 1, "sinh": 1, "sqrt": 1, "tan": 1, "tanh": 1, "log1p": 1, "acosh": 1, "asinh": 1, "atanh": 1,
    "pow": 2, "atan2": 2, "fmod": 2, "pi": 0,
}  # fmt: skip
RELATIONAL = {"gt", "ge", "eq", "neq", "le", "lt"}
LOGICAL = {"and", "or", "!"}


class Unspecified(Exception):
    """the documented meaning does not fix the value (min/max with NaN, round on an exact half)"""


class FormulaSyntax(Exception):
    pass


def truth(x):
    return bool(x != 0)  # NaN is "true" (non-zero), like numpy's logical functions


def _rel(f):
    return lambda a, b: 1.0 if f(a, b) else 0.0


def _eq(a, b):
    return (a == b) or (math.isnan(a) and math.isnan(b))


def _minmax(f):
    def g(a, b):
        if math.isnan(a) or math.isnan(b):
            raise Unspecified("min/max with NaN")
        if a == b == 0.0 and math.copysign(1.0, a) != math.copysign(1.0, b):
            raise Unspecified("min/max of -0.0 and +0.0")
        return f(a, b)

    return g


def _round(a):
    if math.isfinite(a) and abs(a - math.floor(a) - 0.5) < 1e-9:
        raise Unspecified("round on a half")
    return float(np.round(a))


def _u(f):
    return lambda a: float(f(np.float64(a)))


def _b(f):
    return lambda a, b: float(f(np.float64(a), np.float64(b)))


MEANING = {
    "!": lambda a: not truth(a), "~": lambda a: -a, ".-": lambda a: -a, ".+": lambda a: +a,
    "^": _b(np.float_power), "**": _b(np.float_power), "*": lambda a, b: a * b, "/": _b(np.true_divide), "%": _b(np.remainder),
    "+": lambda a, b: a + b, "-": lambda a, b: a - b, "and": lambda a, b: truth(a) and truth(b), "or": lambda a, b: truth(a) or truth(b),
    "gt": _rel(lambda a, b: a > b), "lt": _rel(lambda a, b: a < b), "ge": _rel(lambda a, b: a >= b or _eq(a, b)), "le": _rel(lambda a, b: a <= b or _eq(a, b)),
    "eq": _rel(_eq), "neq": _rel(lambda a, b: not _eq(a, b)), "min": _minmax(min), "max": _minmax(max),
    "acos": _u(np.arccos), "asin": _u(np.arcsin), "atan": _u(np.arctan), "ceil": _u(np.ceil), "cos": _u(np.cos), "cosh": _u(np.cosh), "exp": _u(np.exp),
    "abs": _u(np.fabs), "fabs": _u(np.fabs), "floor": _u(np.floor), "log": _u(np.log), "log10": _u(np.log10), "round": _round, "sin": _u(np.sin),
    "sinh": _u(np.sinh), "sqrt": _u(np.sqrt), "tan": _u(np.tan), "tanh": _u(np.tanh), "log1p": _u(np.log1p), "acosh": _u(np.arccosh), "asinh": _u(np.arcsinh),
    "atanh": _u(np.arctanh), "pow": _b(np.float_power), "atan2": _b(np.arctan2), "fmod": _b(np.fmod), "pi": lambda: math.pi,
}  # fmt: skip

# ---- trees:  ("num", float) | ("var", name) | (op_or_function_name, child, ...) ---------------------------------------------


def evaluate(t, env):
    k = t[0]
    if k == "num":
        return t[1]
    if k == "var":
        if t[1] not in env:
            raise KeyError(t[1])
        return float(env[t[1]])
    with np.errstate(all="ignore"):
        args = [evaluate(c, env) for c in t[1:]]
        r = MEANING[k](*args)
    return r


def postfix(t):
    if t[0] in ("num", "var"):
        return None  # printed by the library (needs its number format)
    raise NotImplementedError


def rpn(text, env, number=float):
    """independent stack machine for a postfix string"""
    stack = []
    for tok in text.split():
        if tok in OPERATORS or tok in FUNCTIONS:
            n = OPERATORS[tok][2] if tok in OPERATORS else FUNCTIONS[tok]
            if len(stack) < n:
                raise FormulaSyntax(f"stack underflow at {tok}")
            args = stack[len(stack) - n :]
            del stack[len(stack) - n :]
            with np.errstate(all="ignore"):
                stack.append(MEANING[tok](*args))
        else:
            try:
                stack.append(number(tok))
            except ValueError:
                if tok not in env:
                    raise KeyError(tok)
                stack.append(float(env[tok]))
    if len(stack) != 1:
        raise FormulaSyntax("postfix does not reduce to one value")
    return stack[0]


# ---- own parser (precedence climbing) ----------------------------------------------------------------------------------------

_TOKEN = re.compile(r"\s*(\*\*|\.\-|\.\+|[!~^*/%+\-(),]|[A-Za-z_][A-Za-z_0-9]*|\d+\.?\d*(?:[eE][+-]?\d+)?|\.\d+|\S)")


def tokenize(text):
    out, pos = [], 0
    text = text.strip()
    while pos < len(text):
        m = _TOKEN.match(text, pos)
        if not m:
            break
        out.append(m.group(1))
        pos = m.end()
    return out


class Parser:
    def __init__(self, tokens):
        self.t, self.i = tokens, 0

    def peek(self):
        return self.t[self.i] if self.i < len(self.t) else None

    def next(self):
        if self.i >= len(self.t):
            raise FormulaSyntax("unexpected end")
        self.i += 1
        return self.t[self.i - 1]

    def expr(self, min_prec=0):
        lhs = self.prefix()
        while True:
            op = self.peek()
            if op not in OPERATORS or OPERATORS[op][2] != 2 or OPERATORS[op][0] < min_prec:
                return lhs
            self.next()
            prec, right, _ = OPERATORS[op]
            rhs = self.expr(prec if right else prec + 1)
            lhs = (op, lhs, rhs)

    def prefix(self):
        tok = self.next()
        if tok in OPERATORS and OPERATORS[tok][2] == 1:
            return (tok, self.expr(OPERATORS[tok][0]))
        if tok == "(":
            e = self.expr()
            if self.next() != ")":
                raise FormulaSyntax("expected )")
            return e
        if tok in FUNCTIONS:
            arity = FUNCTIONS[tok]
            args = []
            if self.peek() == "(":
                self.next()
                if self.peek() == ")":
                    self.next()
                else:
                    args.append(self.expr())
                    while self.peek() == ",":
                        self.next()
                        args.append(self.expr())
                    if self.next() != ")":
                        raise FormulaSyntax("expected )")
            elif arity != 0:
                raise FormulaSyntax(f"function {tok} without arguments")
            if len(args) != arity:
                raise FormulaSyntax(f"function {tok} expects {arity} arguments, got {len(args)}")
            return (tok, *args)
        if re.fullmatch(r"\d+\.?\d*(?:[eE][+-]?\d+)?|\.\d+", tok):
            return ("num", float(tok))
        if re.fullmatch(r"[A-Za-z_][A-Za-z_0-9]*", tok) and tok not in OPERATORS:
            return ("var", tok)
        raise FormulaSyntax(f"unexpected token {tok}")


def parse(text):
    p = Parser(tokenize(text))
    tree = p.expr()
    if p.peek() is not None:
        raise FormulaSyntax("trailing tokens")
    return tree


# ---- printer -----------------------------------------------------------------------------------------------------------------


def _num(v):
    s = f"{v:.3f}"
    return s


def to_text(rnd, t, redundant=0.0, tight=0.0):
    """infix text of the tree with the minimal parentheses the operator table requires (+ redundant ones)"""

    def sp(tok):  # optional spaces around symbolic tokens; words always keep theirs
        return tok if rnd.random() < tight else f" {tok} "

    def par(s):
        return f"{sp('(')}{s}{sp(')')}"

    def go(t, parent=None, side=None):
        k = t[0]
        if k == "num":
            s = _num(t[1])
        elif k == "var":
            s = t[1]
        elif k in FUNCTIONS:
            if FUNCTIONS[k] == 0:
                s = k if rnd.random() < 0.8 else f"{k}{sp('(')}{sp(')')}"
            else:
                s = f"{k}{sp('(')}" + sp(",").join(go(c) for c in t[1:]) + sp(")")
        else:
            prec, right, arity = OPERATORS[k]
            if arity == 1:
                # a space before dotted unary operators keeps them apart from a preceding digit ("2 .- x", never "2.-x")
                s = f" {k} " + go(t[1], k, "R")
            else:
                op = f" {k} " if k in ("and", "or") else sp(k)
                s = go(t[1], k, "L") + op + go(t[2], k, "R")
            if parent is not None:
                pprec, pright, parity = OPERATORS[parent]
                need = prec < pprec or (prec == pprec and ((side == "R" and not pright) or (side == "L" and pright)))
                if parity == 1 and prec == pprec:
                    need = False
                if need:
                    return par(s)
        if rnd.random() < redundant:
            return par(s)
        return s

    return " ".join(go(t).split()) if tight == 0.0 else re.sub(r"\s+", " ", go(t)).strip()


# ---- typed random generator --------------------------------------------------------------------------------------------------

UNARY_F = [f for f, a in FUNCTIONS.items() if a == 1]
BINARY_F = ["pow", "atan2", "fmod", "min", "max"]
ARITH = ["^", "**", "*", "/", "%", "+", "-"]


def gen_numeric(rnd, depth, variables):
    c = rnd.random()
    if depth == 0 or c < 0.22:
        c2 = rnd.random()
        if c2 < 0.45 and variables:
            return ("var", rnd.choice(variables))
        if c2 < 0.52:
            return ("pi",)
        return ("num", float(f"{rnd.choice([0.0, 1.0, 2.0, 0.5, 3.0, rnd.uniform(0, 5), rnd.uniform(0, 5)]):.3f}"))
    if c < 0.55:
        return (rnd.choice(ARITH), gen_numeric(rnd, depth - 1, variables), gen_numeric(rnd, depth - 1, variables))
    if c < 0.65:
        return (rnd.choice(["~", ".-", ".+"]), gen_numeric(rnd, depth - 1, variables))
    if c < 0.8:
        return (rnd.choice(UNARY_F), gen_numeric(rnd, depth - 1, variables))
    if c < 0.9:
        return (rnd.choice(BINARY_F), gen_numeric(rnd, depth - 1, variables), gen_numeric(rnd, depth - 1, variables))
    return (rnd.choice(sorted(RELATIONAL)), gen_numeric(rnd, depth - 1, variables), gen_numeric(rnd, depth - 1, variables))


def gen_truth(rnd, depth, variables):
    if depth == 0:
        return gen_numeric(rnd, 0, variables)
    c = rnd.random()
    sub = lambda: gen_truth(rnd, depth - 1, variables) if rnd.random() < 0.5 else gen_numeric(rnd, depth - 1, variables)  # noqa: E731
    if c < 0.2:
        return ("!", sub())
    return (rnd.choice(["and", "or"]), sub(), sub())


def gen_formula(rnd, depth, variables):
    return gen_truth(rnd, depth, variables) if rnd.random() < 0.2 else gen_numeric(rnd, depth, variables)


def uses(t, names):
    return t[0] in names or (t[0] not in ("num", "var") and any(uses(c, names) for c in t[1:]))


def size(t):
    return 1 if t[0] in ("num", "var") else 1 + sum(size(c) for c in t[1:])
