"""Seeded generator of term specs (plain data) with parameters on a decimals grid, and of x values aimed at the
places the definitions name (breakpoints and their floating-point neighbours, midpoints, range bounds, +-inf, NaN)."""
from __future__ import annotations

import math

inf, nan = math.inf, math.nan
SHAPES = ["Arc", "Bell", "Binary", "Concave", "Cosine", "Discrete", "Gaussian", "GaussianProduct", "PiShape", "Ramp", "Rectangle", "SemiEllipse", "Sigmoid", "SigmoidDifference", "SigmoidProduct", "Spike", "SShape", "Trapezoid", "Triangle", "ZShape"]  # fmt: skip
MONOTONIC = ["Arc", "Concave", "Ramp", "Sigmoid", "SShape", "ZShape"]


def snap(v, d):
    """nearest double to the d-decimals grid point (what FLL export/import reproduces); d = None: any double"""
    if d is None:
        return float(v)
    return float(f"{v:.{d}f}") + 0.0 if math.isfinite(v) else v


def height(rnd, d, free=False):
    """free: any height in (0,1], including values next to 1 (the FLL round-trip checks keep away from 1 +- atol)"""
    if free and rnd.random() < 0.2:
        return rnd.choice([0.9995, 0.99999, 0.999, 0.9985, 1e-3, 0.5000001])
    h = snap(rnd.choice([1.0, 1.0, 1.0, 0.5, 0.25, rnd.uniform(0.05, 0.95)]), d)
    # away from 0 and from 1 +- atol (heights "close to 1" are exported as 1)
    return h if (0.0 < h <= 1.0 and (h == 1.0 or abs(h - 1.0) > 0.0015)) else 1.0


def shape_term(rnd, name, lo, hi, kinds=None, d=3, kind=None, degenerate=True, free_height=False, reversed_bounds=False):
    """spec = dict(cls, name, params, height); every parameter is a Python float on the d-decimals grid"""
    w = hi - lo
    unit = 10.0**-d if d is not None else 0.0

    def g(a=lo, b=hi):
        return snap(rnd.uniform(a, b), d)

    def pos(a=0.05, b=0.6):
        return max(snap(rnd.uniform(a, b) * w, d), unit)

    def two():
        s, e = g(), g()
        tries = 0
        while e == s:
            e = snap(s + rnd.choice([-1, 1]) * pos(), d)
            tries += 1
            if tries > 20:
                e = math.nextafter(s, inf)
        if degenerate and d is not None and rnd.random() < 0.1:
            # a very narrow shape: the two parameters differ by a grid unit or so (closer than the library's comparison tolerance)
            near = snap(s + rnd.choice([-1, 1]) * rnd.choice([unit, 2 * unit, max(unit, 5e-4)]), d)
            if near != s:
                e = near
        return s, e

    def slope():
        v = snap(rnd.uniform(1, 30) / w, d)
        return v if v != 0 else 1.0

    k = kind or rnd.choice(kinds or SHAPES)
    h = height(rnd, d, free=free_height)
    if k in ("Arc", "Concave", "Ramp", "SemiEllipse"):
        p = list(two())
    elif k in ("Rectangle", "SShape", "ZShape"):
        p = sorted(two())
        if reversed_bounds and k == "Rectangle" and rnd.random() < 0.5:
            p = p[::-1]  # end before start: the library reads the pair as an interval whichever way round it is given
        if degenerate and k != "Rectangle" and rnd.random() < 0.12:
            p[1] = p[0]  # vertical edge: a step function
    elif k == "Bell":
        p = [g(), pos(), rnd.choice([1.0, 2.0, 3.0, 0.5])]
    elif k == "Binary":
        p = [g(), rnd.choice([inf, -inf])]
    elif k in ("Cosine", "Spike", "Gaussian"):
        p = [g(), pos()]
    elif k == "GaussianProduct":
        a, b = sorted([g(), g()])
        if degenerate and rnd.random() < 0.2:
            a, b = b, a  # overlapping halves
        p = [a, pos(), b, pos()]
    elif k == "Sigmoid":
        p = [g(), rnd.choice([-1, 1]) * slope()]
    elif k == "SigmoidDifference":
        a, b = sorted(two())
        s = slope()
        p = [a, s, s if rnd.random() < 0.7 else slope(), b]
    elif k == "SigmoidProduct":
        a, b = sorted(two())
        p = [a, slope(), -slope(), b]
    elif k == "PiShape":
        v = sorted(g() for _ in range(4))
        tries = 0
        while not (v[0] < v[1] <= v[2] < v[3]):
            v = sorted(g() for _ in range(4))
            tries += 1
            if tries > 20:
                v = [lo, snap(lo + w / 4, d), snap(lo + w / 2, d), hi]
                if not (v[0] < v[1] <= v[2] < v[3]):
                    v = [lo, lo + unit, lo + 2 * unit, lo + 3 * unit]
        if degenerate and rnd.random() < 0.2:
            v[2] = v[1]
        if degenerate and rnd.random() < 0.12:
            v[1] = v[0]  # vertical left edge
        if degenerate and rnd.random() < 0.12:
            v[2] = v[3]  # vertical right edge
        p = v
    elif k == "Trapezoid":
        v = sorted(g() for _ in range(4))
        if degenerate:
            if rnd.random() < 0.2:
                v[1] = v[0]
            if rnd.random() < 0.2:
                v[2] = v[3]
            if rnd.random() < 0.15:
                v[0] = -inf
            if rnd.random() < 0.15:
                v[3] = inf
        if v[0] == v[3]:
            v[3] = snap(v[3] + max(unit, pos()), d)
        p = v
    elif k == "Triangle":
        v = sorted(g() for _ in range(3))
        if degenerate:
            if rnd.random() < 0.15:
                v[1] = v[0]
            elif rnd.random() < 0.15:
                v[1] = v[2]
            if rnd.random() < 0.15:
                v[0] = -inf
            if rnd.random() < 0.15:
                v[2] = inf
        if v[0] == v[2]:
            v[2] = snap(v[2] + max(unit, pos()), d)
        p = v
    elif k == "Discrete":
        n = rnd.randint(1 if degenerate and rnd.random() < 0.15 else 2, 6)
        xs = sorted({g() for _ in range(n)})
        tries = 0
        while len(xs) < min(n, 2):
            xs = sorted(set(xs) | {g(), snap(lo + rnd.random() * w, d)})
            tries += 1
            if tries > 20:
                xs = sorted(set(xs) | {lo, hi, math.nextafter(lo, inf)})
        p = []
        for x in xs:
            p += [x, snap(rnd.choice([0.0, 1.0, rnd.random(), rnd.random()]), d)]
    else:
        raise KeyError(k)
    p = [snap(float(x), d) for x in p]
    return dict(cls=k, name=name, params=p, height=h)


def build_term(fl, t, engine=None, route=None):
    """route: "constructor" (default), "factory" (term factory + configure(parameters)), "create" (Discrete.create forms)"""
    k = t["cls"]
    if route == "factory" and k not in ("Function", "Linear", "Discrete", "Constant"):
        term = fl.settings.factory_manager.term.construct(k, name=t["name"])
        params = list(t["params"]) + ([t["height"]] if t.get("height", 1.0) != 1.0 else [])
        term.configure(" ".join(repr(float(p)) for p in params))
        return term
    if route in ("create", "factory") and k == "Discrete":
        xs, ys = t["params"][0::2], t["params"][1::2]
        form = (len(xs) + int(sum(abs(v) for v in t["params"] if math.isfinite(v)) * 1024)) % 4
        if form == 0:
            return fl.Discrete.create(t["name"], " ".join(repr(float(p)) for p in t["params"]), t["height"])
        if form == 1:
            return fl.Discrete.create(t["name"], (list(xs), list(ys)), t["height"])
        if form == 2:
            return fl.Discrete.create(t["name"], dict(zip(xs, ys)), t["height"])
        return fl.Discrete(t["name"], list(t["params"]), t["height"])
    if k == "Constant":
        return fl.Constant(t["name"], t["params"][0])
    if k == "Linear":
        return fl.Linear(t["name"], list(t["params"]), engine)
    if k == "Function":
        return fl.Function(t["name"], t["formula"], engine, variables=t.get("variables") or None)
    if k == "Discrete":
        return fl.Discrete(t["name"], fl.Discrete.to_xy(t["params"][0::2], t["params"][1::2]), t["height"])
    return getattr(fl, k)(t["name"], *t["params"], t["height"])


def breakpoints(t):
    """finite x values at which the definition of the term changes piece"""
    k, p = t["cls"], t["params"]
    if k == "Discrete":
        return list(p[0::2])
    if k in ("Bell", "Gaussian", "Spike", "Sigmoid", "Binary"):
        pts = [p[0]]
    elif k == "Cosine":
        pts = [p[0], p[0] - 0.5 * p[1], p[0] + 0.5 * p[1]]
    elif k == "GaussianProduct":
        pts = [p[0], p[2]]
    elif k in ("SigmoidDifference", "SigmoidProduct"):
        pts = [p[0], p[3]]
    elif k in ("SShape", "ZShape"):
        pts = [p[0], p[1], 0.5 * (p[0] + p[1])]
    elif k == "PiShape":
        pts = list(p) + [0.5 * (p[0] + p[1]), 0.5 * (p[2] + p[3])]
    else:
        pts = list(p)
    return [v for v in pts if math.isfinite(v)]


def x_values(rnd, t, lo, hi, n=24):
    xs = []
    w = (hi - lo) or 1.0
    for b in breakpoints(t):
        xs += [b, math.nextafter(b, inf), math.nextafter(b, -inf)]
    xs += [lo, hi, lo - 0.25 * w, hi + 0.25 * w, inf, -inf, nan]
    bp = breakpoints(t) or [lo]
    for _ in range(n):
        c = rnd.random()
        if c < 0.55:
            xs.append(rnd.uniform(lo - 0.1 * w, hi + 0.1 * w))
        elif c < 0.8:  # crowd the breakpoints (ill-conditioned ends of Arc / SemiEllipse, vertical edges)
            b = rnd.choice(bp)
            xs.append(b + rnd.choice([-1, 1]) * w * 10.0 ** rnd.uniform(-12, -1))
        elif c < 0.9:
            a, b = rnd.choice(bp), rnd.choice(bp)
            xs.append(0.5 * (a + b))
        else:
            xs.append(rnd.choice([lo, hi]) + rnd.uniform(-2, 2) * w)
    return xs
