#!/venv/bin/python
"""Confirm and keep an independently written property-breaking change.

    tools/seeded.py <source dir with patch.diff, demo.py, meta.json> <id, eg C07-A> [--props C07,C01] [--thorough]

On a scratch copy of /repo (never /repo itself): apply the patch, run the repository's tests (must pass), run the
demonstration on the changed copy (must exit 1) and on /repo (must exit 0), then run ./check for the property (and any extra
ones) against the changed copy.  Everything is recorded in /verif/seeded/<id>/meta.json; the scratch copy is removed."""
import argparse, json, os, shutil, subprocess, sys, tempfile, time
from pathlib import Path

ap = argparse.ArgumentParser()
ap.add_argument("src")
ap.add_argument("id")
ap.add_argument("--props", default=None)
ap.add_argument("--thorough", action="store_true")
ap.add_argument("--seed", default="0")
a = ap.parse_args()
src = Path(a.src)
meta = json.loads((src / "meta.json").read_text())
prop = (a.props or meta["property"]).split(",")
tmp = Path(tempfile.mkdtemp(prefix="vfseed-"))
record = {"id": a.id, "property": meta["property"], "summary": meta.get("summary"), "needs_to_manifest": meta.get("needs_to_manifest"), "files": meta.get("files"), "ran": []}
try:
    copy = tmp / "repo"
    shutil.copytree("/repo", copy, ignore=shutil.ignore_patterns(".git", "docs", "__pycache__", "site"))
    r = subprocess.run(["patch", "-p1", "-s", "-i", str((src / "patch.diff").resolve())], cwd=copy, capture_output=True, text=True)
    if r.returncode:
        sys.exit("patch does not apply: " + r.stdout + r.stderr)
    env = dict(os.environ, PYTHONPATH=str(copy))
    r = subprocess.run([sys.executable, "-m", "pytest", "-q", "-p", "no:cacheprovider", "--timeout=900", "--deselect", "tests/test_exporter.py::TestPythonExporter::test_object", "--deselect", "tests/test_benchmark.py::TestBenchmark::test_measure"], cwd=copy, env=env, capture_output=True, text=True)
    tests = r.stdout.strip().splitlines()[-1] if r.stdout.strip() else r.stderr[-200:]
    record["repo_tests_with_change"] = tests
    print("repo tests with the change:", tests)
    demo = (src / "demo.py").resolve()
    rc_changed = subprocess.run([sys.executable, str(demo)], cwd=tmp, env=env, capture_output=True, text=True)
    rc_clean = subprocess.run([sys.executable, str(demo)], cwd=tmp, env=dict(os.environ, PYTHONPATH="/repo"), capture_output=True, text=True)
    record["demo_exit_with_change"], record["demo_exit_without_change"] = rc_changed.returncode, rc_clean.returncode
    record["demo_output_with_change"] = (rc_changed.stdout + rc_changed.stderr)[-600:]
    print(f"demo: exit {rc_changed.returncode} with the change, {rc_clean.returncode} without")
    record["confirmed"] = bool(" failed" not in tests and rc_changed.returncode == 1 and rc_clean.returncode == 0)
    caught_by = []
    for p in prop:
        for tier in ["quick"] + (["thorough"] if a.thorough else []):
            t0 = time.time()
            r = subprocess.run(["./check", p, "--tier", tier, "--seed", a.seed], cwd="/verif", env=dict(os.environ, VERIF_REPO=str(copy), VERIF_EVIDENCE_DIR=str(tmp / "evidence"), VERIF_REPLAY_DIR=str(tmp / "replays")), capture_output=True, text=True)
            lines = [l.split("  # ")[-1] for l in r.stdout.splitlines() if l.startswith("VIOLATION")]
            mechs = sorted(set(lines))
            verdict = {0: "missed", 1: "caught", 2: "inconclusive"}.get(r.returncode, f"exit {r.returncode}")
            record["ran"].append({"check": p, "tier": tier, "seed": int(a.seed), "exit": r.returncode, "verdict": verdict, "wall_s": round(time.time() - t0, 1), "mechanisms": mechs[:6]})
            print(f"./check {p} --tier {tier}: {verdict} ({time.time() - t0:.0f}s)")
            for m in mechs[:4]:
                print("    ", m[:200])
            if r.returncode == 1:
                caught_by.append(f"{p}:{tier}")
                break
            if r.returncode not in (0, 1):
                print(r.stdout[-500:], r.stderr[-500:])
    record["caught_by"] = caught_by
    dest = Path("/verif/seeded") / a.id
    dest.mkdir(parents=True, exist_ok=True)
    if src.resolve() != dest.resolve():
        shutil.copy(src / "patch.diff", dest / "patch.diff")
        shutil.copy(src / "demo.py", dest / "demo.py")
    (dest / "meta.json").write_text(json.dumps(record, indent=1))
finally:
    shutil.rmtree(tmp, ignore_errors=True)
