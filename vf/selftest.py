"""setup_cmd: nothing needs building (pure Python, numpy ships with /repo's interpreter); verify the pieces import."""
from .core import import_library

fl = import_library()
import numpy  # noqa: E402,F401

from . import probe  # noqa: E402,F401

print("vf ready: fuzzylite", fl.__file__)
