"""C14 — FuzzyLite Language export/import round-trips engines.

Deciding step: monitors on FllExporter.to_string (engines) and FllImporter.from_string.  After every observed export
of an engine the text is imported again and exported: the two texts must be equal and the structural digests of the
original and the imported engine must agree within half a unit of the last decimal; after every observed successful
import the accepted text must normalise to a fixed point in one export/import cycle.  The workload adds the
bit-identical-outputs check for engines whose parameters lie on the decimals grid."""
from __future__ import annotations

import copy
import math

import numpy as np

from ..core import describe, import_library
from ..gen import engines as E
from ..gen import mutate as M
from ..env import ENVIRONMENTS, excusable, hostile
from ..probe import Probe, Reach
from ..ref import structure as S
from ..ref import terms as R
from ..ref import wiring as W
from . import c08

WORKERS = {"quick": 1, "thorough": 16}


class FllMonitor:
    def __init__(self, ctx, fl):
        self.ctx, self.fl = ctx, fl
        self.pairs = set()

    def install(self, probe):
        fl = self.fl
        self.probe = probe
        probe.wrap(fl.FllExporter, "engine", after=self._after_export)  # to_string(engine), describe(engine), Op.to_fll, to_file all end here
        probe.wrap(fl.FllImporter, "from_string", after=self._after_import)
        # which printer/parser pairs ran with non-default values (evidence only)
        for base in (fl.Term, fl.Activation, fl.Defuzzifier):
            for cls in subclasses(base):
                for name in ("parameters", "configure"):
                    if name in cls.__dict__ and not getattr(cls.__dict__[name], "__isabstractmethod__", False):
                        probe.wrap(cls, name, after=self._count(cls.__name__, name), label=f"{cls.__name__}.{name}")

    def _count(self, cname, name):
        def after(args, kwargs, token, result, exc):
            if exc is not None:
                return
            text = result if name == "parameters" else (args[1] if len(args) > 1 else "")
            if text:
                self.pairs.add((cname, name))

        return after

    def _after_export(self, args, kwargs, token, result, exc):
        ctx, fl = self.ctx, self.fl
        exporter, instance = args[0], args[1]
        if not isinstance(instance, fl.Engine):
            return
        if exporter.separator != "\n":
            # another separator: the matching importer must be used for the round trip
            return self._after_export_with(exporter, instance, result, exc)
        d = fl.settings.decimals
        case = {"decimals": d, "fll": str(result)[:3000] if result else None}
        ctx.evaluated()
        if exc is not None:
            ctx.violation(f"exporting an engine raises {type(exc).__name__}", {"engine": instance.name, "error": repr(exc)[:200]}, "FLL text", repr(exc)[:200])
            return
        if not in_language(fl, instance):
            ctx.hit("out_of_domain:names/descriptions outside the language (non-identifier names, multi-line or '#' descriptions, int-typed parameters)")
            return
        try:
            back = fl.FllImporter().from_string(result)
        except Exception as ex:
            ctx.violation(f"the exported text is not importable ({type(ex).__name__})", dict(case, error=repr(ex)[:300]), "an engine", repr(ex)[:300])
            return
        again = fl.FllExporter().to_string(back)
        ctx.hit("compare:text fixed point")
        if again != result:
            diff = first_difference(result, again)
            ctx.violation(f"export(import(export(e))) differs from export(e) ({diff[0]})", dict(case, first_difference=diff[1:]), diff[1], diff[2])
            return
        a, b = S.engine_digest(fl, instance), S.engine_digest(fl, back)
        tol = 0.5 * 10.0**-d * (1 + 1e-9) + 1e-12
        diffs = S.differences(a, b, tol)
        # heights and weights within the library's comparison tolerance of 1 are written as 1: not a structural loss the property claims
        diffs = [x for x in diffs if not (S.kind_of(x[0]) in ("term.height", "rule.weight") and abs(float(x[1]) - 1.0) <= fl.settings.atol + 1e-15 and float(x[2]) == 1.0)]
        ctx.hit("compare:structure")
        for path, x, y in diffs[:3]:
            kind = S.kind_of(path)
            if kind == "rule.enabled":
                ctx.violation("Rule.enabled is not representable in FLL: a disabled rule is imported enabled", dict(case, path=path), x, y)
            else:
                ctx.violation(f"the imported engine differs structurally from the original ({kind})", dict(case, path=path), x, y)
        if not diffs:
            ctx.nontrivial(result)

    def _after_export_with(self, exporter, instance, result, exc):
        ctx, fl = self.ctx, self.fl
        ctx.evaluated()
        if exc is not None or not in_language(fl, instance) or any(exporter.separator in x for x in [instance.description] + [v.description for v in instance.variables] + [rb.description for rb in instance.rule_blocks]):
            ctx.hit("out_of_domain:custom separator occurring in a description (or export failed)")
            return
        try:
            back = fl.FllImporter(separator=exporter.separator).from_string(result)
            again = fl.FllExporter(indent=exporter.indent, separator=exporter.separator).engine(back)
        except Exception as ex:
            ctx.violation(f"text exported with a custom separator is not importable with the same separator ({type(ex).__name__})", {"separator": exporter.separator, "fll": result[:1500], "error": repr(ex)[:200]}, "an engine", repr(ex)[:200])
            return
        ctx.hit("compare:text fixed point (custom separator)")
        if again != result:
            diff = first_difference(result.replace(exporter.separator, "\n"), again.replace(exporter.separator, "\n"))
            ctx.violation(f"export(import(export(e))) differs from export(e) with a custom separator ({diff[0]})", {"separator": exporter.separator, "first_difference": diff[1:]}, diff[1], diff[2])

    def _after_import(self, args, kwargs, token, result, exc):
        ctx, fl = self.ctx, self.fl
        text = args[1]
        ctx.evaluated()
        # an importer that has been used before (texts it accepted, texts it rejected) reads a text as a new importer does
        used = args[0]
        try:
            fresh, fresh_exc = type(used)(separator=used.separator).from_string(text), None
        except Exception as ex:
            fresh, fresh_exc = None, ex
        ctx.hit("compare:used importer vs new importer")
        if (exc is None) != (fresh_exc is None):
            ctx.violation("an importer that has been used before accepts / rejects a text that a new importer rejects / accepts", {"text": text[:1500]}, repr(fresh_exc)[:200] if fresh_exc else "accepted", repr(exc)[:200] if exc else "accepted")
            return
        if exc is not None:
            ctx.hit(f"event:import rejected:{type(exc).__name__}")
            return
        ctx.hit("event:import accepted")
        try:
            if fl.FllExporter().to_string(result) != fl.FllExporter().to_string(fresh):
                diff = first_difference(fl.FllExporter().to_string(fresh), fl.FllExporter().to_string(result))
                ctx.violation(f"an importer that has been used before imports another engine from a text than a new importer ({diff[0]})", {"text": text[:1500], "first_difference": diff[1:]}, diff[1], diff[2])
                return
        except Exception:
            pass  # (an engine that cannot be exported is reported below)
        try:
            x1 = fl.FllExporter().to_string(result)
        except Exception as ex:
            ctx.violation(f"an imported engine cannot be exported ({type(ex).__name__})", {"text": text[:1500], "error": repr(ex)[:200]}, "FLL text", repr(ex)[:200])
            return
        try:
            x2 = fl.FllExporter().to_string(fl.FllImporter().from_string(x1))
        except Exception as ex:
            ctx.violation(f"the export of an imported engine is not importable ({type(ex).__name__})", {"text": text[:1500], "x1": x1[:1500], "error": repr(ex)[:200]}, "an engine", repr(ex)[:200])
            return
        ctx.hit("compare:normalisation fixed point")
        if x1 != x2:
            diff = first_difference(x1, x2)
            ctx.violation(f"an accepted text is not normalised to a fixed point by one import/export cycle ({diff[0]})", {"text": text[:1500], "first_difference": diff[1:]}, diff[1], diff[2])


def subclasses(base):
    seen, todo = [], [base]
    while todo:
        c = todo.pop()
        for s in c.__subclasses__():
            if s not in seen:
                seen.append(s)
                todo.append(s)
    return seen


def first_difference(a, b):
    la, lb = a.split("\n"), b.split("\n")
    for x, y in zip(la, lb):
        if x != y:
            key = x.strip().split(":")[0] if ":" in x else "line"
            return key, x.strip(), y.strip()
    return "length", f"{len(la)} lines", f"{len(lb)} lines"


def in_language(fl, engine):
    def ident(name):  # own definition (letters of any alphabet, digits, underscore; not starting with a digit)
        return bool(name) and all(ch.isalnum() or ch == "_" for ch in name) and not name[0].isnumeric()

    def text_ok(s):
        return "\n" not in s and "#" not in s and s == s.strip()

    if not text_ok(engine.name) or not text_ok(engine.description):
        return False
    for v in engine.variables:
        if not ident(v.name) or not text_ok(v.description):
            return False
        for attr in ("minimum", "maximum"):
            if not isinstance(getattr(v, attr), (float, np.floating)):
                return False
        for t in v.terms:
            if not ident(t.name):
                return False
            for k, val in vars(t).items():
                if isinstance(val, int) and not isinstance(val, bool):
                    return False
    for rb in engine.rule_blocks:
        if not text_ok(rb.name) or not text_ok(rb.description):
            return False
    return True


def off_grid(rnd, spec):
    """the same engine with parameters moved off the decimals grid (text / structure part of the property)"""
    s = copy.deepcopy(spec)
    for v in s["inputs"] + s["outputs"]:
        for t in v["terms"]:
            if t["cls"] in ("Function",):
                continue
            t["params"] = [p + rnd.uniform(-4e-7, 4e-7) * (1 if abs(p) < 1e6 else 0) if math.isfinite(p) else p for p in t["params"]]
    return s


def run(ctx):
    fl = import_library()
    nengines = ctx.scale(150, 12000)
    decs = list(range(1, 10))
    ctx.rule = (
        f"every FllExporter.to_string(engine) and FllImporter.from_string call observed. Workload: {nengines} generated engines over every registered term "
        "(incl. Discrete, Linear, Function, Constant), norm, defuzzifier (resolution / type) and activation method (parameters), with descriptions, "
        "disabled components, non-unit heights and weights, infinite ranges, NaN defaults, at decimals 1..9 (parameters on the d-grid for the "
        "identical-outputs part, off the grid for the text/structure part); reformatted and mutated FLL texts feed the normalisation check; plus the "
        "shipped examples. distinct_nontrivial = distinct exported texts whose re-import matched text and structure"
    )
    ctx.assumptions += ["structure is compared within half a unit of the last decimal; heights and weights within the library's atol of 1 are written as 1 (as the property says)", "identical outputs are only required (and checked) when no rule is disabled, because of the recorded finding that Rule.enabled has no FLL representation"]
    funcs = {"FllExporter.engine": fl.FllExporter.engine, "FllExporter.variable": fl.FllExporter.variable, "FllExporter.output_variable": fl.FllExporter.output_variable, "FllExporter.rule_block": fl.FllExporter.rule_block, "FllExporter.term": fl.FllExporter.term, "FllImporter.engine": fl.FllImporter.engine, "FllImporter.input_variable": fl.FllImporter.input_variable, "FllImporter.output_variable": fl.FllImporter.output_variable, "FllImporter.rule_block": fl.FllImporter.rule_block, "FllImporter.term": fl.FllImporter.term}
    ctx.excuse = lambda mechanism, observed, note: excusable(observed)
    with Reach(funcs) as reach, Probe() as probe:
        mon = FllMonitor(ctx, fl)
        mon.install(probe)
        shared_importer = fl.FllImporter()
        for i, rnd in ctx.cases("engines", nengines):
            for d in ([decs[i % 9], decs[(i * 5 + 3) % 9]] if not ctx.thorough else [decs[i % 9]]):
                with fl.settings.context(decimals=d):
                    spec = E.gen_engine(rnd, activations=tuple(c08.METHODS), d=d, descriptions=True, infinite=True, max_rules=4, reversed_bounds=True, routes=True)
                    if spec.get("route") in ("fll", "python"):
                        spec["route"] = "constructors"  # (those routes are the subject here, not a way to get an engine)
                    ctx.hit("route:" + spec.get("route", "constructors"))
                    spec["description"] = rnd.choice(["", "an engine: demo", "tab\tinside"])
                    if rnd.random() < 0.5:
                        spec = E.exotic(rnd, spec)
                        ctx.hit("workload:exotic configuration")
                    for variant in ("grid", "off-grid"):
                        sp = spec if variant == "grid" else off_grid(rnd, spec)
                        try:
                            engine = E.build(fl, sp)
                        except Exception as ex:
                            ctx.hit(f"inconclusive:generated engine does not build: {type(ex).__name__}: {str(ex)[:60]}")
                            continue
                        if variant == "grid" and rnd.random() < 0.3:
                            E.retype(ctx, fl, rnd, engine)
                        if rnd.random() < 0.25 and E.rejected_edit(rnd, engine):
                            ctx.hit("workload:a rule was given a text that the parser rejected")
                        try:
                            way = rnd.choice(["to_string", "to_string", "str", "Op.to_fll", "file", "separator"])
                            if way == "str":
                                text = describe(engine)
                            elif way == "Op.to_fll":
                                text = fl.Op.to_fll(engine)
                            elif way == "file":
                                import os
                                import tempfile

                                with tempfile.TemporaryDirectory(prefix="vf-c14-") as tmpd:
                                    path = os.path.join(tmpd, "engine.fll")
                                    fl.FllExporter().to_file(path, engine)
                                    text = open(path, encoding="utf-8").read()
                                    fl.FllImporter().from_file(path)
                            else:
                                if way == "separator":
                                    fl.FllExporter(indent=rnd.choice(["", "    "]), separator=rnd.choice(["; ", " | "])).to_string(engine)
                                with hostile(fl, ENVIRONMENTS[(i // 3) % len(ENVIRONMENTS)] if i % 3 == 0 else None, ctx):
                                    text = fl.FllExporter().to_string(engine)  # judged by the monitor
                            ctx.hit(f"entry:{way}")
                        except Exception:
                            continue
                        ctx.hit(f"decimals:{d}")
                        if variant == "grid":
                            same_outputs(ctx, fl, rnd, sp, engine, text)
                            # accepted reformattings / mutants of the text feed the normalisation check (monitor on from_string)
                            for _ in range(2):
                                broken = text + rnd.choice(["\nInputVariable: leftover\n  enabled: true\n  range 0.000 1.000", "\nOutputVariable: extra\n  this line has no colon", "\nRuleBlock: more\n<<<<<<< HEAD"])
                                for cand in (M.reformat_fll(rnd, text), M.mutate_fll(rnd, text)[1], broken, text):
                                    try:
                                        (shared_importer if rnd.random() < 0.7 else fl.FllImporter()).from_string(cand)
                                    except Exception:
                                        pass
                                ctx.hit("event:one importer object used for accepted and rejected texts")
                        if variant == "grid":
                            # the same engine object exported again: after a rule weight was changed on the object, and under
                            # another decimals setting (nothing of an earlier export may be remembered)
                            rules = [r for rb in engine.rule_blocks for r in rb.rules]
                            if rules:
                                r = rnd.choice(rules)
                                r.weight = rnd.choice([0.5, 0.25, 1.0, 0.0, E.G.snap(rnd.uniform(0.01, 0.9), d)])
                                if r.weight != 1.0 and abs(r.weight - 1.0) <= 0.0015:
                                    r.weight = 0.5
                                ctx.hit("event:re-export after a weight change")
                                try:
                                    fl.FllExporter().to_string(engine)
                                except Exception:
                                    pass
                            d2 = decs[(d + 3) % 9]
                            with fl.settings.context(decimals=d2):
                                ctx.hit("event:re-export under other decimals")
                                try:
                                    fl.FllExporter().to_string(engine)
                                except Exception:
                                    pass
                        if i < 2 and variant == "grid":
                            ctx.sample("engine", {"decimals": d, "fll": text[:2500]})
        # more decimals than a double has significant digits (17, 18, 20): parameters of magnitude >= 0.1 are then written in full,
        # and the imported engine is the same engine bit for bit
        for i, rnd in ctx.cases("many decimals", ctx.scale(12, 600)):
            d = rnd.choice([17, 18, 20])  # (17 decimals are 17 significant digits for 0.1 <= |x| < 1: enough for any double)
            with fl.settings.context(decimals=d):
                spec = E.gen_engine(rnd, activations=("General",), d=3, flags=False, max_rules=3, kinds=("integral", "ts", "tsukamoto"))
                spec["decimals"] = d
                factor = {}
                for v in spec["inputs"] + spec["outputs"]:
                    for t in v["terms"]:
                        if t["cls"] == "Function":
                            continue
                        # the same factor for equal values, so that coinciding vertices keep coinciding
                        t["params"] = [p * factor.setdefault(p, 1.0 + rnd.uniform(-1e-9, 1e-9)) if (math.isfinite(p) and abs(p) >= 0.1) else p for p in t["params"]]
                for rb in spec["blocks"]:
                    for r in rb["rules"]:
                        if r["weight"] != 1.0:
                            r["text"] = r["text"].split(" with ")[0] + f" with {r['weight']:.{d}f}"
                try:
                    engine = E.build(fl, spec)
                    text = fl.FllExporter().to_string(engine)  # judged by the monitor
                except Exception as ex:
                    ctx.hit(f"inconclusive:generated engine does not build: {type(ex).__name__}: {str(ex)[:60]}")
                    continue
                ctx.hit("workload:more decimals than significant digits")
                same_outputs(ctx, fl, rnd, spec, engine, text)
        # output variables whose defuzzifiers are written with the same text (`WeightedAverage`, type Automatic) over terms of
        # different kinds: the imported engine has to tell them apart as the original does
        for i, rnd in ctx.cases("same defuzzifier text", ctx.scale(25, 1500)):
            with fl.settings.context(decimals=3):
                spec = E.gen_engine(rnd, activations=("General",), d=3, kinds=("ts", "tsukamoto", "inverse"), flags=False, max_rules=4)
                if len(spec["outputs"]) < 2:
                    spec["outputs"].append(dict(spec["outputs"][0], name="out1", kind="tsukamoto" if spec["outputs"][0]["kind"] != "tsukamoto" else "ts"))
                    o = spec["outputs"][1]
                    lo_, hi_ = o["minimum"], o["maximum"]
                    o["terms"] = [dict(cls="Constant", name="k", params=[lo_], height=1.0)] if o["kind"] == "ts" else [E.G.shape_term(rnd, "m", lo_, hi_, kinds=E.G.MONOTONIC, d=3)]
                    spec["blocks"][0]["rules"].append(dict(text=f"if {spec['inputs'][0]['name']} is {spec['inputs'][0]['terms'][0]['name']} then out1 is {o['terms'][0]['name']}", tree=None, concl=[], weight=1.0, enabled=True))
                cls = rnd.choice(["WeightedAverage", "WeightedSum"])
                for o in spec["outputs"]:
                    o["defuzzifier"] = dict(cls=cls, type="Automatic")
                try:
                    engine = E.build(fl, spec)
                    text = fl.FllExporter().to_string(engine)  # judged by the monitor
                except Exception as ex:
                    ctx.hit(f"inconclusive:generated engine does not build: {type(ex).__name__}: {str(ex)[:60]}")
                    continue
                ctx.hit("workload:output variables sharing one defuzzifier text")
                same_outputs(ctx, fl, rnd, spec, engine, text)
        # a Discrete term of several hundred pairs (a sampled curve): every pair is written, under any NumPy print options
        for i, rnd in ctx.cases("long tables", ctx.scale(4, 60)):
            n = rnd.choice([7, 40, 501, 600, 1001])
            xs = [k / 8 for k in range(n)]
            ys = [E.G.snap(rnd.random(), 3) for _ in range(n)]
            engine = fl.Engine("curve", input_variables=[fl.InputVariable("a", minimum=0.0, maximum=n / 8, terms=[fl.Discrete("d", fl.Discrete.to_xy(xs, ys)), fl.Triangle("t", 0.0, 1.0, 2.0)])])
            with hostile(fl, [None, "print-options"][i % 2], ctx):
                try:
                    fl.FllExporter().to_string(engine)  # judged by the monitor
                except Exception:
                    pass
            ctx.hit("workload:Discrete term of several hundred pairs")
        # components of a user's own classes, registered in the factories the importer uses: subclasses that add nothing, and
        # subclasses that declare class-level defaults of their own
        class CoarseCentroid(fl.Centroid):
            default_resolution = 20

        class MyMinimum(fl.Minimum):
            pass

        class MyGeneral(fl.General):
            pass

        class Tent(fl.Triangle):
            pass

        class SoftSum(fl.WeightedSum):
            pass

        for i, rnd in ctx.cases("user classes", ctx.scale(20, 400)):
            manager = fl.FactoryManager()
            manager.defuzzifier.constructors["CoarseCentroid"] = CoarseCentroid
            manager.defuzzifier.constructors["SoftSum"] = SoftSum
            manager.tnorm.constructors["MyMinimum"] = MyMinimum
            manager.activation.constructors["MyGeneral"] = MyGeneral
            manager.term.constructors["Tent"] = Tent
            with fl.settings.context(factory_manager=manager, decimals=3):
                res = rnd.choice([20, 20, 100, 1000, 37])
                mamdani = i % 3 != 2
                engine = fl.Engine(
                    "user",
                    input_variables=[fl.InputVariable("a", minimum=0.0, maximum=1.0, terms=[Tent("low", 0.0, 0.25, 0.5), fl.Ramp("high", 0.25, 1.0)])],
                    output_variables=[fl.OutputVariable("o", minimum=0.0, maximum=2.0, aggregation=fl.Maximum(), defuzzifier=CoarseCentroid(res) if mamdani else SoftSum(), terms=[Tent("x", 0.0, 1.0, 2.0), fl.Triangle("y", 0.5, 1.5, 2.0)] if mamdani else [fl.Constant("x", 0.5), fl.Constant("y", 1.5)])],
                    rule_blocks=[fl.RuleBlock("rb", conjunction=MyMinimum(), disjunction=fl.Maximum(), implication=MyMinimum(), activation=MyGeneral(), rules=[fl.Rule.create("if a is low then o is x"), fl.Rule.create("if a is high and a is not low then o is y")])],
                )
                try:
                    text = fl.FllExporter().to_string(engine)  # judged by the monitor (text, structure)
                    back = fl.FllImporter().from_string(text)
                    for x in (0.1, 0.3, 0.6, rnd.random()):
                        engine.input_variables[0].value = x
                        back.input_variables[0].value = x
                        engine.process()
                        back.process()
                        ctx.evaluated()
                        a, b = float(engine.output_variables[0].value), float(back.output_variables[0].value)
                        if not (a == b or (a != a and b != b)):
                            ctx.violation("an engine with registered user classes computes other outputs after the round trip", {"fll": text[:1500], "input": x}, a, b)
                            break
                except Exception as ex:
                    ctx.violation(f"an engine with registered user classes does not survive the round trip ({type(ex).__name__})", {"error": repr(ex)[:300]}, "round trip", repr(ex)[:300])
            ctx.hit("workload:components of registered user classes")
        from . import c01  # the shipped examples: export each (monitor judges), and process through the re-import

        import fuzzylite.examples  # noqa: F401

        for i, rnd in ctx.cases("examples", 1):
            for engine in fl.Op.glob_examples("engine"):
                try:
                    fl.FllExporter().to_string(engine)
                    ctx.hit("examples:exported")
                except Exception:
                    pass
        probe.report(ctx)
        ctx.extra["printer_parser_pairs_with_values"] = sorted(f"{c}.{n}" for c, n in mon.pairs)
        reach.report(ctx)
    ctx.require("route:copy-as-is", "route:deepcopy-as-is")
    ctx.require("workload:components of registered user classes", "workload:Discrete term of several hundred pairs", "event:one importer object used for accepted and rejected texts", "compare:used importer vs new importer", *[f"environment:{e}" for e in ENVIRONMENTS])
    ctx.require("workload:a rule was given a text that the parser rejected", "workload:output variables sharing one defuzzifier text", "workload:more decimals than significant digits")
    ctx.require("hook:FllExporter.engine", "entry:str", "entry:file", "entry:separator", "entry:Op.to_fll", "hook:FllImporter.from_string", "compare:text fixed point", "compare:structure", "compare:normalisation fixed point", "compare:identical outputs", "event:import accepted", "event:re-export after a weight change", "event:re-export under other decimals", "workload:exotic configuration")
    for d in decs:
        ctx.require(f"decimals:{d}")


def same_outputs(ctx, fl, rnd, spec, engine, text):
    """grid-representable parameters: the imported engine must compute exactly the same outputs"""
    if any(not r["enabled"] for rb in spec["blocks"] for r in rb["rules"]):
        ctx.hit("skipped:identical outputs not required when a rule is disabled (recorded finding)")
        return
    try:
        back = fl.FllImporter().from_string(text)
    except Exception:
        return
    general = all(rb["activation"] and rb["activation"]["cls"] == "General" for rb in spec["blocks"])
    rows = E.rows(rnd, spec, 6)
    blocks = [[r] for r in rows[:4]] + ([rows[4:]] if general else [[r] for r in rows[4:]])
    fresh = E.build(fl, spec)
    for block in blocks:
        outs = []
        for e in (fresh, back):
            try:
                if len(block) == 1:
                    for v, x in zip(e.input_variables, block[0]):
                        v.value = x
                else:
                    arr = np.array(block, dtype=float)
                    for k, v in enumerate(e.input_variables):
                        v.value = arr[:, k]
                e.process()
                outs.append([np.array(ov.value, dtype=float, copy=True) for ov in e.output_variables])
            except Exception as ex:
                outs.append(repr(ex)[:120])
        ctx.hit("compare:identical outputs")
        ctx.evaluated()
        if isinstance(outs[0], str) or isinstance(outs[1], str):
            if isinstance(outs[0], str) != isinstance(outs[1], str):
                ctx.violation("the imported engine raises where the original does not (or vice versa)", {"fll": text[:2500], "rows": block}, outs[0], outs[1])
            continue
        for ov, a, b in zip(fresh.output_variables, outs[0], outs[1]):
            if not W.same(a, b):
                ctx.violation("the imported engine computes different outputs although every parameter is representable at the configured decimals", {"fll": text[:2500], "rows": block, "variable": ov.name}, a, b)
                return


def passive(ctx, fl, probe):
    """attach this property's always-on monitor to a foreign workload (the repository's test-suite, see vf/pytest_plugin.py)"""
    mon = FllMonitor(ctx, fl)
    mon.install(probe)
    return None
