#!/bin/sh
# re-run every kept seeded change against the current checks (quick tier; thorough only if quick misses); $1 = parallel jobs
cd "$(dirname "$0")/.." || exit 2
jobs=${1:-4}
log=$(mktemp -d /tmp/vf-seedall-XXXXXX)
for d in seeded/*/; do
  id=$(basename "$d")
  extra=$(/venv/bin/python -c "
import json; m=json.load(open('$d/meta.json')); ps=[]
for r in m.get('ran', []):
    if r['check'] not in ps: ps.append(r['check'])
print(','.join(ps) or m['property'])")
  echo "$d $id $extra"
done | xargs -P "$jobs" -L 1 sh -c 'tools/seeded.py "$0" "$1" --props "$2" --thorough > '"$log"'/"$1".log 2>&1'
for f in "$log"/*.log; do
  echo "== $(basename "$f" .log)"; grep -E "^(repo tests|demo:|\./check|patch does not)" "$f"
done
rm -rf "$log"
