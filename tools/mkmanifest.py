#!/venv/bin/python
"""Regenerate /verif/MANIFEST.json from the table below and validate it against the schema."""
import json, sys
from pathlib import Path

V = Path(__file__).resolve().parent.parent
sys.path.insert(0, str(V))
from vf.registry import CHECKS, NOT_APPLICABLE  # noqa: E402

hooks = {
    "guard": "PYFUZZYLITE_VERIF",
    "enable": "no source hook exists in /repo: monitors are attached at run time by /verif/vf/probe.py, which replaces attributes of the "
    "classes imported from /repo's working tree; ./check sets PYFUZZYLITE_VERIF=1 for its own worker processes and the pytest plugin",
    "baseline_off_cmd": "cd /repo && env -u PYFUZZYLITE_VERIF /venv/bin/python -m pytest -ra -q -p no:cacheprovider --timeout=900 --continue-on-collection-errors",
    "source_commits": [],
    "add_only": True,
}
COMMON_TECHNIQUE = "; the same monitors run while part of the workload is driven in hostile process environments (warnings as errors, debug logging, foreign print options; other float types where stated), objects handed out by earlier steps are held with a copy and compared after later steps, and read-only calls are made between steps with the engine state compared around each (vf/env.py)"
COMMON_NOTE = "; oracles compute in a neutral environment; the only excused environment failure is NumPy's overflow warning turned into an error"
checks = []
for pid, c in CHECKS.items():
    checks.append(
        {
            "property_id": pid,
            "quick_cmd": f"./check {pid} --tier quick",
            "thorough_cmd": f"./check {pid} --tier thorough",
            "evidence_file": f"/verif/evidence/{pid}.json",
            "replay_cmd_template": f"./check {pid} --replay {{path}}",
            "engine": "vf",
            "level_claimed": {"category": c["level"], "text": c["text"], "design_ref": f"DESIGN.md §4 {pid}"},
            "level_note": c["note"] + COMMON_NOTE,
            "technique": c["technique"] + COMMON_TECHNIQUE,
        }
    )
manifest = {
    "version": 1,
    "setup_cmd": "/venv/bin/python -m vf.selftest",
    "hooks": hooks,
    "engines": [{"name": "vf", "path": "/verif/vf", "serves_properties": list(CHECKS), "kind_free_text": "runtime monitors (class-attribute hooks, sys.monitoring reach recorder) + seeded/exhaustive workload drivers + offline checkers over recorded events; pure Python, runs in /venv against /repo's working tree"}],
    "checks": checks,
    "notes": "exit 0 = held on everything observed; exit 1 + VIOLATION line = refuting observation (replay file re-runs the single case); exit 2 = inconclusive (deciding monitor never fired, worker died, watchdog). Known findings: /verif/known_findings.json.",
    "not_applicable": NOT_APPLICABLE,
}
(V / "MANIFEST.json").write_text(json.dumps(manifest, indent=1) + "\n")
try:
    import jsonschema
    jsonschema.validate(manifest, json.load(open("/root/.vp/MANIFEST.schema.json")))
    print("MANIFEST.json valid,", len(checks), "checks,", len(NOT_APPLICABLE), "not applicable")
except ImportError:
    print("written (jsonschema not available in this interpreter)")
