"""C20 — Temporary settings are always restored.

Deciding step: `Settings.context` is replaced by an observing wrapper that snapshots vars(settings) around __enter__
and __exit__ of every context (normal and exceptional exit) and compares with a stack model; the workload enumerates
programs of nested contexts with exceptions raised at every level, direct assignments and helper probes."""
from __future__ import annotations

import contextlib
import itertools
import logging
import math

import numpy as np

from ..core import import_library
from ..env import ENVIRONMENTS, excusable, hostile
from ..probe import Probe, Reach

WORKERS = {"quick": 1, "thorough": 8}
KEYS = ["float_type", "decimals", "atol", "rtol", "alias", "logger", "factory_manager"]
ATTR = {k: ("_factory_manager" if k == "factory_manager" else k) for k in KEYS}


def same(a, b):
    """identical object, or an equal number/string of the same type (objects such as loggers and factory managers are
    restored only when the very same object is back: their own notion of equality does not count)"""
    if a is b:
        return True
    if type(a) is type(b) and isinstance(a, (bool, int, float, str, np.number)):
        return bool(a == b)
    return False


def show(v):
    if isinstance(v, type):
        return v.__name__
    if isinstance(v, logging.Logger):
        return f"Logger({v.name})"
    if v.__class__.__name__ == "FactoryManager":
        return f"FactoryManager@{id(v) % 10007}"
    return v


SERIALS, MANAGERS = {}, []


class Boom(Exception):
    pass


class Quit(BaseException):
    """contexts are also left by exceptions that are not `Exception`s (KeyboardInterrupt, GeneratorExit, SystemExit)"""


class SettingsMonitor:
    """Always-on monitor of every settings context entered anywhere in the process."""

    def __init__(self, ctx, fl):
        self.ctx, self.fl = ctx, fl
        self.depth = 0

    def install(self, probe):
        Settings = self.fl.library.Settings
        original = Settings.__dict__["context"]
        mon = self

        class Observed(contextlib.ContextDecorator):
            def __init__(self, cm, settings, named):
                self.cm, self.s, self.named = cm, settings, named

            def _recreate_cm(self):
                # used as a decorator: a fresh context per call, like contextlib's own generator context managers
                mon.ctx.hit("event:context used as a decorator")
                return Observed(self.cm._recreate_cm(), self.s, self.named)

            def __enter__(self):
                ctx = mon.ctx
                self.before = dict(vars(self.s))
                try:
                    r = self.cm.__enter__()
                except BaseException as ex:
                    # a context that refuses to be entered is never left: whatever it had applied by then stays for good
                    after = dict(vars(self.s))
                    ctx.hit("event:entry refused")
                    ctx.evaluated()
                    for a, v in self.before.items():
                        if not (after.get(a) is v):
                            ctx.violation("a context whose entry was refused left a setting changed", {"key": a, "named": sorted(self.named), "error": repr(ex)[:120]}, show(v), show(after.get(a)))
                    raise
                if probe.busy:
                    return r
                inside = dict(vars(self.s))
                ctx.hit("event:enter")
                ctx.evaluated()
                for k, v in self.named.items():
                    if not (inside.get(ATTR[k]) is v):
                        ctx.violation("context entry: named setting not set to the given value", {"key": k, "given": show(v)}, show(v), show(inside.get(ATTR[k])))
                for a, v in self.before.items():
                    if a not in {ATTR[k] for k in self.named} and not (inside.get(a) is v):
                        ctx.violation("context entry: a setting not named in the context changed", {"key": a, "named": sorted(self.named)}, show(v), show(inside.get(a)))
                mon.depth += 1
                ctx.hit(f"depth:{mon.depth}")
                return r

            def __exit__(self, et, ev, tb):
                ctx = mon.ctx
                pre = dict(vars(self.s))
                try:
                    r = self.cm.__exit__(et, ev, tb)
                finally:
                    if not probe.busy:
                        post = dict(vars(self.s))
                        mon.depth -= 1
                        how = "exception" if et is not None else "normal"
                        ctx.hit(f"event:exit:{how}")
                        ctx.evaluated()
                        for k in self.named:
                            a = ATTR[k]
                            if not same(post.get(a), self.before.get(a)):
                                ctx.violation(f"context exit ({how}): named setting not restored", {"key": k, "named": sorted(self.named), "depth": mon.depth + 1}, show(self.before.get(a)), show(post.get(a)))
                        for a, v in pre.items():
                            if a not in {ATTR[k] for k in self.named} and not (post.get(a) is v):
                                ctx.violation(f"context exit ({how}): a setting not named in the context changed", {"key": a, "named": sorted(self.named)}, show(v), show(post.get(a)))
                        if self.named:
                            ctx.nontrivial("exit", how, tuple(sorted(self.named)), mon.depth, tuple(str(show(self.before.get(ATTR[k]))) for k in sorted(self.named)))
                return r

        def context(self_, **kwargs):
            cm = original(self_, **kwargs)
            if probe.busy:
                return cm
            probe.calls["Settings.context"] = probe.calls.get("Settings.context", 0) + 1
            named = {k: v for k, v in kwargs.items() if v is not None}
            return Observed(cm, self_, named)

        Settings.context = context
        probe._undo.append((Settings, "context", original))


# ---- workload: programs over the real `with` statement, mirrored by a stack model --------------------------------------


def values(fl, rnd, key, fresh):
    if key == "float_type":
        return rnd.choice([np.float64, np.float32, np.float16])
    odd = rnd.random() < 0.06  # values a stricter library might refuse: they are either applied and restored, or refused whole
    if key == "decimals":
        return rnd.choice([-1, 2.5, 400]) if odd else rnd.randrange(0, 10)
    if key == "atol":
        return rnd.choice([-1e-3, math.nan]) if odd else rnd.choice([1e-3, 1e-6, 0.5, 0.0, 1e-12])
    if key == "rtol":
        return rnd.choice([-1.0, math.nan]) if odd else rnd.choice([0.0, 1e-5, 0.25])
    if key == "alias":
        return rnd.choice(["fl", "", "*", "fuzzy", "f2"])
    if key == "logger":
        return logging.getLogger(f"vf.c20.{rnd.randrange(4)}") if not fresh else logging.Logger(f"vf.fresh.{rnd.randrange(10**6)}")
    if key == "factory_manager":
        # every manager of the workload registers its own marked term class under one name, so that whoever builds a term tells
        # which manager it asked
        fm = fl.FactoryManager()
        MANAGERS.append(fm)
        if rnd.random() < 0.4:
            return fm  # a manager with exactly the registrations of the default one
        if rnd.random() < 0.4 and vars(fl.settings).get("_factory_manager") is not None:
            # (only once the default manager exists: asking for it would make it, and contexts entered before anybody has asked
            # for it are a case of their own)
            # a manager made by copying the one in force (the default one, or the one of an enclosing context) and registering
            # something more in the copy: the copy is the copy's
            import copy as _copy

            fm = _copy.deepcopy(fl.settings.factory_manager)
            MANAGERS.append(fm)
        serial = len(SERIALS) + 1
        fm.term.constructors["Marker"] = type("Marker", (fl.Constant,), {"serial": serial})
        fm.function.objects[f"marker{serial}"] = fl.Function.Element(f"marker{serial}", "marks the manager it was registered in", fl.Function.Element.Type.Function, lambda x: x, arity=1)
        SERIALS[id(fm)] = serial
        MANAGERS.append(fm)
        return fm
    raise KeyError(key)


def gen_program(fl, rnd, depth, max_depth, keysets=None):
    """A program is a list of steps: ("ctx", kwargs, body, catch) | ("assign", key, value) | ("raise",) | ("probe",)"""
    steps = []
    for _ in range(rnd.randrange(1, 4)):
        c = rnd.random()
        if c < 0.45 and depth < max_depth:
            ks = rnd.sample(KEYS, rnd.choice([1, 1, 2, 2, 3, 7])) if keysets is None else list(rnd.choice(keysets))
            kwargs = {k: values(fl, rnd, k, rnd.random() < 0.5) for k in ks}
            opt = {}
            if rnd.random() < 0.4:
                # the context object is created first, settings change, and only then is it entered (as a `with` target,
                # through an ExitStack, or as a decorator around the body)
                opt["mode"] = rnd.choice(["prepared", "exitstack", "decorator", "decorator-twice", "decorator-recursive"])
                opt["pre"] = [(k, values(fl, rnd, k, True)) for k in rnd.sample(ks + KEYS, rnd.randrange(0, 3))]
            steps.append(("ctx", kwargs, gen_program(fl, rnd, depth + 1, max_depth, keysets), rnd.random() < 0.35, opt))
        elif c < 0.65:
            k = rnd.choice(KEYS)
            steps.append(("assign", k, values(fl, rnd, k, True)))
        elif c < 0.8 and depth > 0:
            steps.append(("raise",) if rnd.random() < 0.75 else ("quit",))
        else:
            steps.append(("probe",))
    return steps


def describe(prog):
    out = []
    for st in prog:
        if st[0] == "ctx":
            out.append({"with": {k: show(v) for k, v in st[1].items()}, "body": describe(st[2]), "catch_here": st[3]})
            if len(st) > 4 and st[4]:
                out[-1]["entered"] = st[4].get("mode")
                out[-1]["assigned_between_creation_and_entry"] = {k: show(v) for k, v in st[4].get("pre", [])}
        elif st[0] == "assign":
            out.append({"assign": st[1], "value": show(st[2])})
        else:
            out.append(st[0])
    return out


class Runner:
    def __init__(self, ctx, fl):
        self.ctx, self.fl, self.s = ctx, fl, fl.settings
        self.old_importer = fl.FllImporter()

    def probe_helpers(self, model):
        """formatting and comparison helpers must follow the *current* (model) values"""
        ctx, fl = self.ctx, self.fl
        ctx.evaluated()
        d = model["decimals"]
        if not (isinstance(d, int) and 0 <= d <= 20 and model["atol"] >= 0 and model["rtol"] >= 0):
            # odd values are only required to be applied and restored; the helpers' behaviour under them is not specified
            ctx.hit("probe:skipped under an odd value")
            for k in KEYS:
                real = vars(self.s)[ATTR[k]]
                if not same(real, model[k]) and not (isinstance(real, float) and isinstance(model[k], float) and real != real and model[k] != model[k]):
                    ctx.violation("settings differ from the stack model", {"key": k}, show(model[k]), show(real))
            return
        got = fl.Op.str(1.0 / 3.0)
        exp = f"{1.0 / 3.0:.{d}f}"
        ctx.hit("probe:Op.str")
        if got != exp:
            ctx.violation("Op.str does not follow the current decimals setting", {"decimals_expected": d}, exp, got)
        third, v = 1.0 / 3.0, 0.375
        forms = {
            "numpy float64 scalar": (np.float64(third), f"{third:.{d}f}"),
            "numpy float32 scalar": (np.float32(v), f"{v:.{d}f}"),
            "0-d array": (np.array(third), f"{third:.{d}f}"),
            "1-D array": (np.array([third, v]), f"{third:.{d}f} {v:.{d}f}"),
            "list": ([third, v], f"{third:.{d}f} {v:.{d}f}"),
            "tuple": ((v,), f"{v:.{d}f}"),
            "2-D array": (np.array([[third, v], [v, third]]), f"{third:.{d}f} {v:.{d}f}\n{v:.{d}f} {third:.{d}f}"),
            "2-D float32 array": (np.array([[v, 2.5]], dtype=np.float32), f"{v:.{d}f} {2.5:.{d}f}"),
            "column array": (np.array([[third], [v]]), f"{third:.{d}f}\n{v:.{d}f}"),
            "non-contiguous 2-D array": (np.array([[third, v], [v, third]]).T, f"{third:.{d}f} {v:.{d}f}\n{v:.{d}f} {third:.{d}f}"),
        }
        for form, (value, exp) in forms.items():
            got = fl.Op.str(value)
            ctx.hit("probe:Op.str:" + form)
            if got != exp:
                ctx.violation("Op.str does not follow the current decimals setting", {"decimals_expected": d, "form": form}, exp, got)
        alias = model["alias"]
        exp = {"": "fuzzylite.norm.Minimum()", "*": "Minimum()"}.get(alias, f"{alias}.Minimum()")
        got = repr(fl.Minimum())
        ctx.hit("probe:repr alias")
        if got != exp:
            ctx.violation("repr() does not follow the current alias setting", {"alias": alias}, exp, got)
        atol, rtol = model["atol"], model["rtol"]
        a, b = 1.0, 1.0 + 0.4
        exp_close = bool(abs(a - b) <= atol + rtol * abs(b))
        got_close = bool(fl.Op.is_close(a, b))
        ctx.hit("probe:Op.is_close")
        if exp_close != got_close:
            ctx.violation("Op.is_close does not follow the current tolerances", {"atol": atol, "rtol": rtol}, exp_close, got_close)
        # single values follow the same rule as batches: |a - b| <= atol + rtol |b|
        self.nprobe = getattr(self, "nprobe", 0) + 1
        edge = [(b_ + f * (atol + rtol * abs(b_)), b_) for b_ in (1.0, 100.0, -2.5) for f in (0.9, 1.1, -0.9, -1.1) if atol + rtol * abs(b_) > 0]
        for a_, b_ in ([(1.15, 1.0), (111.0, 100.0), (1.0, 1.3), (100.0, 111.0), (0.25, 0.26), (1.0, 1.0 + 1e-7)] + edge) if self.nprobe % 6 == 0 else edge[self.nprobe % 6 :: 6]:
            want = bool(abs(a_ - b_) <= atol + rtol * abs(b_))
            margin = abs(abs(a_ - b_) - (atol + rtol * abs(b_)))
            if margin <= 1e-12 * max(1.0, abs(b_)):
                continue  # (on the edge of the tolerance: rounding decides)
            ctx.hit("probe:Op.is_close on single values")
            forms = {"floats": fl.Op.is_close(a_, b_), "numpy scalars": fl.Op.is_close(np.float64(a_), np.float64(b_)), "arrays": fl.Op.is_close(np.array([a_, a_]), np.array([b_, b_]))}
            for form, got in forms.items():
                if bool(np.all(got)) != want:
                    ctx.violation("Op.is_close does not follow the current tolerances", {"atol": atol, "rtol": rtol, "a": a_, "b": b_, "given as": form}, want, bool(np.all(got)))
        big_a = np.ones(20000)
        for gap in (0.4, 0.3):  # (0.3 is within the relative tolerance 0.25 of 1.3, and beyond every absolute one but 0.5)
            want = bool(gap <= atol + rtol * (1.0 + gap))
            got_big = np.asarray(fl.Op.is_close(big_a, big_a + gap))
            ctx.hit("probe:Op.is_close on a large batch")
            if got_big.shape != (20000,) or bool(got_big[0]) != want or bool(got_big[-1]) != want or bool(got_big.all()) != want or bool(fl.Op.is_close(1.0, 1.0 + gap)) != want:
                ctx.violation("Op.is_close does not follow the current tolerances", {"atol": atol, "rtol": rtol, "values": 20000, "gap": gap}, want, [bool(got_big[0]), bool(got_big[-1])])
        dt = fl.scalar(1.5).dtype
        ctx.hit("probe:scalar")
        if dt != np.dtype(model["float_type"]):
            ctx.violation("scalar() does not follow the current float_type", {"float_type": show(model["float_type"])}, str(np.dtype(model["float_type"])), str(dt))
        for k in KEYS:
            real = vars(self.s)[ATTR[k]]
            if not same(real, model[k]):
                ctx.violation("settings differ from the stack model", {"key": k}, show(model[k]), show(real))
        # what was registered in one manager is known to that manager only (formulas are read with the function factory in force)
        if model["factory_manager"] is not None:
            mine = SERIALS.get(id(model["factory_manager"]))
            known = sorted(k for k in fl.settings.factory_manager.function.objects if k.startswith("marker"))
            ctx.hit("probe:functions registered in the current factory manager")
            inherited = getattr(model["factory_manager"], "_vf_inherited", None)
            if inherited is None:
                # (a copied manager legitimately knows what its source knew when it was copied: noted once, at first sight)
                inherited = [k for k in known if k != f"marker{mine}"]
                try:
                    model["factory_manager"]._vf_inherited = inherited
                except Exception:
                    pass
            want_known = sorted(inherited + ([f"marker{mine}"] if mine else []))
            if known != want_known:
                ctx.violation("the function factory in force knows functions that were registered in another factory manager", {"manager_serial": mine}, want_known, known)
        # the factory manager is observed through those who build from it: an importer made just now and one made long before
        exp = SERIALS.get(id(model["factory_manager"]))
        # (not while the default manager is still to be made: asking for it would make it, and the probe must not change what it watches)
        for label, imp in () if model["factory_manager"] is None else (("created now", fl.FllImporter()), ("created before any context", self.old_importer)):
            try:
                got = getattr(type(imp.term("term: m Marker 1.000")), "serial", "unmarked")
            except Exception:
                got = None
            ctx.hit("probe:importer builds from the current factory manager")
            if got != exp:
                ctx.violation("the FLL importer does not build from the current factory manager", {"importer": label}, exp, got)

    def execute(self, prog, model):
        for st in prog:
            if st[0] == "ctx":
                _, kwargs, body, catch = st[:4]
                opt = st[4] if len(st) > 4 else {}
                mode = opt.get("mode", "with")

                def inside():
                    # runs with the context entered; the values to come back are those held on entry
                    model.update(kwargs)
                    try:
                        self.execute(body, model)
                    finally:
                        model.update(saved)

                try:
                    cm = self.s.context(**kwargs)
                    for k, v in opt.get("pre", []):
                        setattr(self.s, k, v)
                        model[k] = v
                        self.ctx.hit("event:setting assigned between creation and entry of a context")
                    saved = {k: model[k] for k in kwargs}
                    self.ctx.hit("entered:" + mode)
                    if mode == "decorator-recursive":
                        # one decorator object around a function that calls itself: the context is active twice at once
                        def twice(level=0):
                            model.update(kwargs)
                            try:
                                if level == 0:
                                    decorated(1)
                                    model.update(kwargs)  # back in the outer call: the inner one restored what it found on entry
                                    self.probe_helpers(model)
                                else:
                                    self.execute(body, model)
                            finally:
                                if level == 0:
                                    model.update(saved)

                        decorated = cm(twice)
                        decorated(0)
                    elif mode in ("decorator", "decorator-twice"):
                        decorated = cm(inside)
                        decorated()
                        if mode == "decorator-twice":
                            self.probe_helpers(model)
                            decorated()
                    elif mode == "exitstack":
                        with contextlib.ExitStack() as stack:
                            stack.enter_context(cm)
                            inside()
                    else:
                        with cm:
                            inside()
                except (Boom, Quit) as ex:
                    self.ctx.hit("exception_crossed_a_context" if isinstance(ex, Boom) else "base_exception_crossed_a_context")
                    if not catch:
                        raise
                except (ValueError, TypeError):
                    # the library refused the values of this context: it was never entered, the settings are as before
                    self.ctx.hit("event:context refused by the library")
                except Warning as ex:
                    # (warnings turned into errors) whatever a context has to say when it is left, it says after it has put the
                    # settings back: the probes below find everything restored
                    self.ctx.hit(f"event:a context raised {type(ex).__name__} when left")
                    model.update(saved)
                self.probe_helpers(model)
            elif st[0] == "assign":
                setattr(self.s, st[1], st[2])
                model[st[1]] = st[2]
            elif st[0] == "raise":
                raise Boom()
            elif st[0] == "quit":
                raise Quit()
            else:
                self.probe_helpers(model)

    def run_program(self, prog):
        pristine = dict(vars(self.s))
        model = {k: pristine[ATTR[k]] for k in KEYS}
        try:
            try:
                self.execute(prog, model)
            except (Boom, Quit):
                self.ctx.hit("exception_reached_top")
            self.probe_helpers(model)
        finally:
            for a, v in pristine.items():
                vars(self.s)[a] = v


def run(ctx):
    fl = import_library()
    ctx.level = "fault_enumeration"
    max_depth = ctx.scale(3, 4)
    nrandom = ctx.scale(600, 200_000)
    ctx.rule = (
        "programs of nested `with settings.context(...)` blocks over subsets of the 7 settings, an exception raised at any level "
        "(caught at any outer level or not at all), direct assignments to named/unnamed keys inside contexts and helper probes; every "
        "__enter__/__exit__ is observed and compared with a stack model. Exhaustive: depth<=2 over all single and double key subsets x "
        "{no exception, exception in inner, exception in outer}; random programs up to depth "
        f"{max_depth}. distinct_nontrivial = distinct (exit kind, named keys, depth, values restored)"
    )
    ctx.assumptions += ["restored means identical object, or equal value of the same type for numbers and strings", "only vars(settings) is observed; loggers' own levels are not settings"]
    Settings = fl.library.Settings
    with Reach({"Settings.context": getattr(Settings.__dict__["context"], "__wrapped__", Settings.__dict__["context"]), "Op.str": fl.Op.__dict__["str"], "Op.is_close": fl.Op.__dict__["is_close"]}) as reach, Probe() as probe:
        mon = SettingsMonitor(ctx, fl)
        mon.install(probe)
        runner = Runner(ctx, fl)
        # 1. exhaustive small space
        subsets = [c for r in (1, 2) for c in itertools.combinations(KEYS, r)]
        combos = [(a, b, fault) for a in subsets for b in subsets for fault in ("none", "inner", "outer", "inner-caught")]
        for i, rnd in ctx.cases("exhaustive", len(combos)):
            a, b, fault = combos[i]
            inner_body = [("probe",)] + ([("raise",) if i % 3 else ("quit",)] if fault.startswith("inner") else [])
            outer_body = [("assign", rnd.choice(KEYS), values(fl, rnd, rnd.choice(["decimals"]), True))][:0] + [("ctx", {k: values(fl, rnd, k, True) for k in b}, inner_body, fault == "inner-caught"), ("probe",)] + ([("raise",)] if fault == "outer" else [])
            prog = [("ctx", {k: values(fl, rnd, k, True) for k in a}, outer_body, False), ("probe",)]
            runner.run_program(prog)
            if i % 997 == 0:
                ctx.sample("exhaustive", describe(prog))
        # 2. direct assignments inside a context, every key x named/unnamed
        pairs = [(k, a) for k in KEYS for a in KEYS]
        for i, rnd in ctx.cases("assign", len(pairs)):
            named, assigned = pairs[i]
            for fault in (False, True):
                prog = [("ctx", {named: values(fl, rnd, named, True)}, [("assign", assigned, values(fl, rnd, assigned, True)), ("probe",)] + ([("raise",)] if fault else []), True), ("probe",)]
                runner.run_program(prog)
                # the same in a process whose state is not the default one (warnings are errors, the library logs at DEBUG, ...),
                # with more settings named and nested once
                envname = ENVIRONMENTS[(i + int(fault)) % len(ENVIRONMENTS)]
                more = {k: values(fl, rnd, k, True) for k in rnd.sample([k for k in KEYS if k != named], 2)}
                inner = ("ctx", {named: values(fl, rnd, named, True), **more}, [("assign", assigned, values(fl, rnd, assigned, True)), ("probe",)] + ([("raise",)] if fault else []), True)
                with hostile(fl, envname, ctx):
                    runner.run_program([inner, ("probe",)])
                    runner.run_program([("ctx", {rnd.choice(KEYS): values(fl, rnd, "decimals", True)} if False else {"decimals": rnd.randrange(0, 10)}, [inner, ("probe",)], False), ("probe",)])
            ctx.hit("assign:" + ("named" if named == assigned else "unnamed"))
            if i % 13 == 0:
                ctx.sample("assign", describe(prog))
        # 3. invalid keyword / context created but never entered
        for i, rnd in ctx.cases("misc", 20):
            before = dict(vars(fl.settings))
            try:
                fl.settings.context(bogus=1)
                ctx.violation("invalid keyword accepted by Settings.context", {"kwargs": {"bogus": 1}}, "TypeError", "no error")
            except TypeError:
                ctx.hit("invalid_keyword_rejected")
            cm = fl.settings.context(decimals=rnd.randrange(10), alias="zz")
            del cm
            ctx.evaluated()
            after = dict(vars(fl.settings))
            if any(after[k] is not before[k] for k in before):
                ctx.violation("creating a context without entering it changed the settings", {}, {k: show(v) for k, v in before.items()}, {k: show(v) for k, v in after.items()})
        # 3b. two contexts over different settings that overlap without nesting: enter A, enter B, leave A, leave B (generators
        # consumed in turns, fixtures, hand-written __enter__/__exit__): each one puts back its own settings, and only those
        disjoint = [(a, b) for a in subsets for b in subsets if not set(a) & set(b)]
        for i, rnd in ctx.cases("interleaved", ctx.scale(120, len(disjoint))):
            a, b = disjoint[(i * 37) % len(disjoint)]
            pristine = dict(vars(fl.settings))
            model = {k: pristine[ATTR[k]] for k in KEYS}
            ka, kb = {k: values(fl, rnd, k, True) for k in a}, {k: values(fl, rnd, k, True) for k in b}
            ca, cb = fl.settings.context(**ka), fl.settings.context(**kb)
            try:
                ca.__enter__()
                model.update(ka)
                cb.__enter__()
                model.update(kb)
                runner.probe_helpers(model)
                ca.__exit__(None, None, None)
                model.update({k: pristine[ATTR[k]] for k in a})
                runner.probe_helpers(model)
                cb.__exit__(None, None, None)
                model.update({k: pristine[ATTR[k]] for k in b})
                runner.probe_helpers(model)
                ctx.hit("event:contexts left in the order they were entered")
            finally:
                for attr, v in pristine.items():
                    vars(fl.settings)[attr] = v
        # 3c. generators of the library consumed step by step (the shipped examples): between two steps the caller's settings are
        # the caller's - inside a context of its own, after that context was left with the generator suspended, and after the
        # generator was exhausted or dropped
        import fuzzylite.examples  # noqa: F401

        for i, rnd in ctx.cases("library generators", ctx.scale(4, 40)):
            fl.settings.factory_manager  # (the default manager is made on first use: have it made before the settings are noted)
            pristine = dict(vars(fl.settings))
            model = {k: pristine[ATTR[k]] for k in KEYS}
            what = ["engine", "module"][i % 2]
            try:
                gen = fl.Op.glob_examples(what)
                for k, _ in enumerate(gen):
                    runner.probe_helpers(model)
                    if k >= rnd.randint(1, 3):
                        break
                runner.probe_helpers(model)
                mine = {"factory_manager": values(fl, rnd, "factory_manager", True), "decimals": rnd.randrange(0, 10), "alias": rnd.choice(["", "*", "f2"])}
                with fl.settings.context(**mine):
                    model.update(mine)
                    it = fl.Op.glob_examples(what)
                    next(it)
                    runner.probe_helpers(model)
                    next(it)
                    runner.probe_helpers(model)
                model.update({k: pristine[ATTR[k]] for k in mine})
                runner.probe_helpers(model)
                if i % 3 == 0:
                    del it
                    import gc

                    gc.collect()
                elif i % 3 == 1:
                    it.close()
                else:
                    for _ in zip(range(3), it):
                        runner.probe_helpers(model)
                runner.probe_helpers(model)
                gen.close()
                runner.probe_helpers(model)
                ctx.hit("event:library generator consumed step by step across contexts")
            finally:
                for attr, v in pristine.items():
                    vars(fl.settings)[attr] = v
        # 4. random programs
        for i, rnd in ctx.cases("random", nrandom):
            prog = gen_program(fl, rnd, 0, max_depth)
            runner.run_program(prog)
            if i < 2:
                ctx.sample("random", describe(prog))
        probe.report(ctx)
        reach.report(ctx)
    ctx.exhaustive = True
    ctx.extra["exhaustive_space"] = "nesting depth 2 over all 28x28 single/double key subsets x 4 exception placements; 7x7 (named, assigned) pairs x {normal, exception}"
    ctx.require("hook:Settings.context", "event:enter", "event:exit:normal", "event:exit:exception", "exception_crossed_a_context", "assign:named", "assign:unnamed", "depth:2", "depth:3", "base_exception_crossed_a_context")
    ctx.require("probe:Op.is_close on single values", "probe:functions registered in the current factory manager")
    ctx.require("event:library generator consumed step by step across contexts", *[f"environment:{e}" for e in ENVIRONMENTS])
    ctx.require("entered:prepared", "entered:exitstack", "entered:decorator", "event:context used as a decorator", "event:setting assigned between creation and entry of a context", "probe:Op.str:2-D array", "entered:decorator-recursive", "event:contexts left in the order they were entered", "probe:Op.is_close on a large batch")


def passive(ctx, fl, probe):
    """attach this property's always-on monitor to a foreign workload (the repository's test-suite, see vf/pytest_plugin.py)"""
    mon = SettingsMonitor(ctx, fl)
    mon.install(probe)
    return None
