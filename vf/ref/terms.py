"""Scalar closed-form reference models of the membership functions, written from the class docstrings of
fuzzylite/term.py (one float at a time, `math` only).  Every model returns (value, piece, tolerance):
`piece` names the part of the definition that x falls in (for the evidence histogram), `tolerance` is the absolute
tolerance to apply (1e-12 by default; conditioning-aware for Arc / SemiEllipse next to their zero end)."""
from __future__ import annotations

import math

inf, nan = math.inf, math.nan
U = 2.0**-53
TOL = 1e-12


def _exp(v):
    try:
        return math.exp(v)
    except OverflowError:
        return inf


def _on(x, points, names):
    for p, n in zip(points, names):
        if x == p:
            return f"on-{n}"
        if math.isfinite(p) and (x == math.nextafter(p, inf) or x == math.nextafter(p, -inf)):
            return f"ulp-of-{n}"
    return None


def _sqrt_tol(rad, params_mag, r, h):
    """first-order propagation of the rounding error of the library's radicand r^2 - (x-c)^2 through sqrt(.)/r"""
    delta = 16 * U * (params_mag + r) * r
    return h * (math.sqrt(rad + delta) - math.sqrt(max(rad - delta, 0.0))) / r + 4 * U * h + TOL


def arc(x, p, h):
    s, e = p
    r = abs(e - s)
    mag = max(abs(s), abs(e))
    mark = _on(x, (s, e), ("start", "end"))
    if s < e:
        if x < s:
            return 0.0, mark or "before-start", TOL
        if x >= e:
            return h, mark or "beyond-end", TOL
    else:
        if x > s:
            return 0.0, mark or "before-start", TOL
        if x <= e:
            return h, mark or "beyond-end", TOL
    rad = max(0.0, (2 * e - s - x) * (x - s))  # = r^2 - (x-e)^2, factorised (well conditioned)
    return h * math.sqrt(rad) / r, mark or "arc", _sqrt_tol(rad, mag, r, h)


def bell(x, p, h):
    c, w, s = p
    if math.isinf(x):
        return (0.0 if s > 0 else h if s < 0 else h / 2), "infinite-x", TOL
    try:
        q = abs((x - c) / w) ** (2 * s)
    except OverflowError:
        q = inf
    except ZeroDivisionError:
        q = inf
    return h / (1.0 + q), _on(x, (c,), ("center",)) or ("core" if abs(x - c) <= abs(w) else "tail"), TOL


def binary(x, p, h):
    s, d = p
    on = (d > s and x >= s) or (d < s and x <= s)
    return (h if on else 0.0), _on(x, (s,), ("start",)) or ("on-side" if on else "off-side"), 0.0


def concave(x, p, h):
    i, e = p
    mark = _on(x, (i, e), ("inflection", "end"))
    if i <= e and x < e:
        v = 0.0 if math.isinf(x) else h * (e - i) / (2 * e - i - x)
        return v, mark or "increasing", TOL
    if i > e and x > e:
        v = 0.0 if math.isinf(x) else h * (i - e) / (i - 2 * e + x)
        return v, mark or "decreasing", TOL
    return h, mark or "beyond-end", TOL


def cosine(x, p, h):
    c, w = p
    lo, hi = c - 0.5 * w, c + 0.5 * w
    mark = _on(x, (lo, c, hi), ("left-foot", "center", "right-foot"))
    if math.isinf(x) or not (lo <= x <= hi):
        return 0.0, mark or "outside", 4e-16
    return h * 0.5 * (1.0 + math.cos(2.0 / w * math.pi * (x - c))), mark or "inside", TOL


def discrete(x, p, h):
    xs, ys = p[0::2], p[1::2]
    mark = _on(x, xs, [f"x{k}" for k in range(len(xs))])
    if x <= xs[0]:
        return h * ys[0], mark or "left-of-first", TOL
    if x >= xs[-1]:
        return h * ys[-1], mark or "right-of-last", TOL
    for k in range(len(xs) - 1):
        if xs[k] <= x <= xs[k + 1]:
            t = (x - xs[k]) / (xs[k + 1] - xs[k])
            return h * (ys[k] + (ys[k + 1] - ys[k]) * t), mark or "between-pairs", TOL
    return nan, "unreachable", TOL


def gaussian(x, p, h):
    m, sd = p
    if math.isinf(x):
        return 0.0, "infinite-x", TOL
    return h * _exp(-((x - m) ** 2) / (2.0 * sd * sd)), _on(x, (m,), ("mean",)) or ("core" if abs(x - m) <= 2 * sd else "tail"), TOL


def gaussian_product(x, p, h):
    ma, sa, mb, sb = p
    a = gaussian(x, (ma, sa), 1.0)[0] if x < ma else 1.0
    b = gaussian(x, (mb, sb), 1.0)[0] if x > mb else 1.0
    mark = _on(x, (ma, mb), ("mean_a", "mean_b"))
    piece = "left-gaussian" if x < ma and not x > mb else "right-gaussian" if x > mb and not x < ma else "both" if x < ma and x > mb else "plateau"
    return h * a * b, mark or piece, TOL


def _s(x, s, e):
    if x <= s:
        return 0.0, "zero"
    if x <= 0.5 * (s + e):
        return 2.0 * ((x - s) / (e - s)) ** 2, "lower-half"
    if x < e:
        return 1.0 - 2.0 * ((x - e) / (e - s)) ** 2, "upper-half"
    return 1.0, "one"


def _z(x, s, e):
    if x <= s:
        return 1.0, "one"
    if x < 0.5 * (s + e):
        return 1.0 - 2.0 * ((x - s) / (e - s)) ** 2, "upper-half"
    if x < e:
        return 2.0 * ((x - e) / (e - s)) ** 2, "lower-half"
    return 0.0, "zero"


def sshape(x, p, h):
    s, e = p
    v, piece = _s(x, s, e)
    return h * v, _on(x, (s, 0.5 * (s + e), e), ("start", "midpoint", "end")) or piece, TOL


def zshape(x, p, h):
    s, e = p
    v, piece = _z(x, s, e)
    return h * v, _on(x, (s, 0.5 * (s + e), e), ("start", "midpoint", "end")) or piece, TOL


def pishape(x, p, h):
    a, b, c, d = p
    sv, sp = _s(x, a, b)
    zv, zp = _z(x, c, d)
    mark = _on(x, (a, 0.5 * (a + b), b, c, 0.5 * (c + d), d), ("bottom_left", "left-midpoint", "top_left", "top_right", "right-midpoint", "bottom_right"))
    piece = "plateau" if sp == "one" and zp == "one" else f"rising-{sp}" if zp == "one" else f"falling-{zp}" if sp == "one" else "both"
    return h * sv * zv, mark or piece, TOL


def ramp(x, p, h):
    s, e = p
    mark = _on(x, (s, e), ("start", "end"))
    if s < e:
        if x <= s:
            return 0.0, mark or "zero", TOL
        if x >= e:
            return h, mark or "one", TOL
        return h * (x - s) / (e - s), mark or "slope", TOL
    if x >= s:
        return 0.0, mark or "zero", TOL
    if x <= e:
        return h, mark or "one", TOL
    return h * (s - x) / (s - e), mark or "slope", TOL


def rectangle(x, p, h):
    s, e = min(p), max(p)
    return (h if s <= x <= e else 0.0), _on(x, (s, e), ("start", "end")) or ("inside" if s <= x <= e else "outside"), 0.0


def semiellipse(x, p, h):
    s, e = min(p), max(p)
    mark = _on(x, (s, e), ("start", "end"))
    if x < s or x > e:
        return 0.0, mark or "outside", TOL
    r = (e - s) / 2.0
    rad = max(0.0, (x - s) * (e - x))
    return h * math.sqrt(rad) / r, mark or "inside", _sqrt_tol(rad, max(abs(s), abs(e)), r, h)


def sigmoid(x, p, h):
    i, s = p
    return h / (1.0 + _exp(-s * (x - i))), _on(x, (i,), ("inflection",)) or ("infinite-x" if math.isinf(x) else "lower" if s * (x - i) < 0 else "upper"), TOL


def sigmoid_difference(x, p, h):
    l, r, f, rt = p
    a, b = sigmoid(x, (l, r), 1.0)[0], sigmoid(x, (rt, f), 1.0)[0]
    return h * abs(a - b), _on(x, (l, rt), ("left", "right")) or ("infinite-x" if math.isinf(x) else "a>=b" if a >= b else "a<b(abs)"), TOL


def sigmoid_product(x, p, h):
    l, r, f, rt = p
    return h * sigmoid(x, (l, r), 1.0)[0] * sigmoid(x, (rt, f), 1.0)[0], _on(x, (l, rt), ("left", "right")) or ("infinite-x" if math.isinf(x) else "finite-x"), TOL


def spike(x, p, h):
    c, w = p
    if math.isinf(x):
        return 0.0, "infinite-x", TOL
    return h * _exp(-abs(10.0 / w * (x - c))), _on(x, (c,), ("center",)) or ("left" if x < c else "right"), TOL


def trapezoid(x, p, h):
    a, b, c, d = p
    mark = _on(x, (a, b, c, d), ("a", "b", "c", "d"))
    if x < a or x > d:
        return 0.0, mark or "outside", TOL
    if b <= x <= c:
        return h, mark or "plateau", TOL
    if a == -inf and x < b:
        return h, mark or "left-shoulder", TOL
    if d == inf and x > c:
        return h, mark or "right-shoulder", TOL
    if x < b:
        return h * (x - a) / (b - a), mark or "rising", TOL
    return h * (d - x) / (d - c), mark or "falling", TOL


def triangle(x, p, h):
    a, b, c = p
    mark = _on(x, (a, b, c), ("a", "b", "c"))
    if x < a or x > c:
        return 0.0, mark or "outside", TOL
    if x == b:
        return h, mark or "top", TOL
    if a == -inf and x < b:
        return h, mark or "left-shoulder", TOL
    if c == inf and x > b:
        return h, mark or "right-shoulder", TOL
    if x < b:
        return h * (x - a) / (b - a), mark or "rising", TOL
    return h * (c - x) / (c - b), mark or "falling", TOL


REF = {
    "Arc": arc, "Bell": bell, "Binary": binary, "Concave": concave, "Cosine": cosine, "Discrete": discrete, "Gaussian": gaussian,
    "GaussianProduct": gaussian_product, "PiShape": pishape, "Ramp": ramp, "Rectangle": rectangle, "SemiEllipse": semiellipse,
    "Sigmoid": sigmoid, "SigmoidDifference": sigmoid_difference, "SigmoidProduct": sigmoid_product, "Spike": spike, "SShape": sshape,
    "Trapezoid": trapezoid, "Triangle": triangle, "ZShape": zshape,
}  # fmt: skip
MONOTONIC = {"Arc", "Concave", "Ramp", "Sigmoid", "SShape", "ZShape"}
ATTRS = {
    "Arc": ("start", "end"), "Bell": ("center", "width", "slope"), "Binary": ("start", "direction"), "Concave": ("inflection", "end"),
    "Cosine": ("center", "width"), "Gaussian": ("mean", "standard_deviation"),
    "GaussianProduct": ("mean_a", "standard_deviation_a", "mean_b", "standard_deviation_b"),
    "PiShape": ("bottom_left", "top_left", "top_right", "bottom_right"), "Ramp": ("start", "end"), "Rectangle": ("start", "end"),
    "SemiEllipse": ("start", "end"), "Sigmoid": ("inflection", "slope"), "SigmoidDifference": ("left", "rising", "falling", "right"),
    "SigmoidProduct": ("left", "rising", "falling", "right"), "Spike": ("center", "width"), "SShape": ("start", "end"),
    "Trapezoid": ("bottom_left", "top_left", "top_right", "bottom_right"), "Triangle": ("left", "top", "right"), "ZShape": ("start", "end"),
}  # fmt: skip


def params_of(term):
    """(kind, parameter tuple, height) read from a live term object, or None when it is not a shape term."""
    kind = type(term).__name__
    if kind == "Discrete":
        v = term.values
        if getattr(v, "ndim", 0) != 2 or v.size == 0:
            return None
        return kind, tuple(float(t) for t in v.flatten().tolist()), float(term.height)
    if kind not in ATTRS:
        return None
    return kind, tuple(float(getattr(term, a)) for a in ATTRS[kind]), float(term.height)


def valid(kind, p, h):
    """the property's domain: valid parameterisations only"""
    if not (0.0 < h <= 1.0):
        return False
    if kind == "Discrete":
        xs = p[0::2]
        ys = p[1::2]
        return len(xs) >= 1 and all(map(math.isfinite, p)) and all(a < b for a, b in zip(xs, xs[1:])) and all(0.0 <= y <= 1.0 for y in ys)
    if any(math.isnan(v) for v in p):
        return False
    fin = all(map(math.isfinite, p))
    if kind == "Triangle":
        a, b, c = p
        return a <= b <= c and a < c and math.isfinite(b) and not (a == -inf and c == inf and False)
    if kind == "Trapezoid":
        a, b, c, d = p
        return a <= b <= c <= d and a < d and math.isfinite(b) and math.isfinite(c)
    def edge(s, e):
        # an edge is vertical (s == e) or has a midpoint of its own: breakpoints that are neighbouring doubles, whose midpoint
        # rounds onto one of them, make two pieces of the documented definition claim the same x
        return s == e or s < 0.5 * (s + e) < e

    if kind == "PiShape":  # vertical edges (a == b, c == d) are degenerate but well defined by the piecewise definition
        a, b, c, d = p
        return fin and a <= b <= c <= d and a < d and edge(a, b) and edge(c, d)
    if kind in ("SShape", "ZShape"):
        return fin and p[0] <= p[1] and edge(p[0], p[1])
    if kind in ("Ramp", "Arc", "SemiEllipse", "Concave"):
        return fin and p[0] != p[1]
    if kind == "Rectangle":
        return fin and p[0] <= p[1]
    if kind == "Binary":
        return math.isfinite(p[0]) and math.isinf(p[1])
    if kind == "Bell":
        return fin and p[1] > 0 and p[2] > 0
    if kind in ("Cosine", "Spike", "Gaussian"):
        return fin and p[1] > 0
    if kind == "GaussianProduct":
        return fin and p[1] > 0 and p[3] > 0  # mean_a > mean_b is legitimate (shipped example all_terms): both factors apply
    if kind == "Sigmoid":
        return fin and p[1] != 0
    if kind in ("SigmoidDifference", "SigmoidProduct"):
        return fin and p[1] != 0 and p[2] != 0
    return False


def tsukamoto(kind, p, h, y):
    """closed-form inverse of the monotonic terms for 0 < y < h (x-space)"""
    if kind == "Ramp":
        s, e = p
        return s + (e - s) * y / h
    if kind == "Concave":
        i, e = p
        return h * (i - e) / y + 2 * e - i
    if kind == "Sigmoid":
        i, s = p
        return i + math.log(h / y - 1.0) / -s
    if kind == "SShape":
        s, e = p
        return s + (e - s) * math.sqrt(y / (2 * h)) if y <= h / 2 else e - (e - s) * math.sqrt((h - y) / (2 * h))
    if kind == "ZShape":
        s, e = p
        return e - (e - s) * math.sqrt(y / (2 * h)) if y <= h / 2 else s + (e - s) * math.sqrt((h - y) / (2 * h))
    if kind == "Arc":
        s, e = p
        r = e - s
        return e + (-1 if s < e else 1) * abs(r) * math.sqrt(max(0.0, 1.0 - (y / h) ** 2))
    raise KeyError(kind)
