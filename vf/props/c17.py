"""C17 — Function formulas follow the documented precedence and associativity.

Deciding step: monitors on Function.load (accept/reject), Function.membership and Function.evaluate compare the value
the library computes with the value of the generator's typed expression tree (the ground truth the formula text was
printed from; own precedence-climbing parse as fall-back) evaluated with the oracle's own operator table, and with an
independent RPN machine run on the postfix form of the tree the library built.  Arrays are judged element-wise."""
from __future__ import annotations

import copy
import math

import numpy as np

from ..core import import_library
from ..probe import Probe, Reach, plain_function
from ..ref import formula as F

WORKERS = {"quick": 1, "thorough": 16}


def close(a, b):
    a, b = float(a), float(b)
    if a == b or (math.isnan(a) and math.isnan(b)):
        return True
    if math.isinf(a) or math.isinf(b):
        return False
    return abs(a - b) <= 1e-12 * max(1.0, abs(a), abs(b))


class FormulaMonitor:
    def __init__(self, ctx, fl):
        self.ctx, self.fl = ctx, fl
        self.expected = {}  # formula text -> generator tree
        self.own = {}  # id(Function) -> own variables the workload gave it (ground truth)
        self.engines = {}  # id(Function) -> the engine the workload says the term belongs to (its variables are the ones meant)
        self.ill_formed = set()

    def install(self, probe):
        fl = self.fl
        probe.wrap(fl.Function, "load", after=self._after_load)
        probe.wrap(fl.Function, "evaluate", after=self._after_evaluate)
        probe.wrap(fl.Function, "membership", after=self._after_membership)

    def tree_of(self, formula):
        if formula in self.expected:
            return self.expected[formula], "generator tree"
        return F.parse(formula), "own parse of the text"

    def _after_load(self, args, kwargs, token, result, exc):
        ctx, fn = self.ctx, args[0]
        ctx.evaluated()
        if fn.formula in self.ill_formed:
            ctx.hit("event:ill-formed formula loaded")
            if exc is None:
                ctx.violation("a formula that is not well-formed is accepted", {"formula": fn.formula, "postfix": fn.root.postfix() if fn.root else None}, "rejected", "loaded")
            elif not isinstance(exc, (SyntaxError, ValueError)):
                ctx.violation(f"a formula that is not well-formed is rejected with {type(exc).__name__}", {"formula": fn.formula}, "SyntaxError/ValueError", repr(exc)[:200])
            else:
                ctx.nontrivial("ill-formed", fn.formula)
            return
        if exc is not None:
            if fn.formula in self.expected:
                ctx.violation(f"a well-formed formula is rejected ({type(exc).__name__})", {"formula": fn.formula}, "loaded", repr(exc)[:200])
            else:
                ctx.hit("event:load rejected (unregistered formula)")
            return
        ctx.hit("event:loaded")

    def _after_membership(self, args, kwargs, token, result, exc):
        fn, x = args[0], args[1]
        clash = None
        owner = self.engines.get(id(fn), fn.engine)
        names_e = [v.name for v in owner.variables] if owner else []
        if "x" in fn.variables:
            clash = "the term's own variables contain the reserved name x"
        elif "x" in names_e:
            clash = "an engine variable is named x"
        elif set(fn.variables) & set(names_e):
            clash = "a variable of the term has the name of an engine variable"
        if clash:
            self.ctx.evaluated()
            self.ctx.hit("name clash refused" if isinstance(exc, ValueError) else "name clash NOT refused")
            if not isinstance(exc, ValueError):
                self.ctx.violation(f"an ambiguous variable name is not refused ({clash})", {"formula": fn.formula, "term_variables": dict(fn.variables), "engine_variables": names_e}, "ValueError", repr(exc) if exc else result)
            return
        env = {}
        if owner:
            for v in owner.variables:
                env[v.name] = v.value
        env["x"] = x
        # (own variables as the workload declared them when it knows the term, else as the term holds them)
        env.update(self.own.get(id(fn), fn.variables))
        self.judge(fn, env, result, exc, "membership")

    def _after_evaluate(self, args, kwargs, token, result, exc):
        fn = args[0]
        env = (args[1] if len(args) > 1 else kwargs.get("variables")) or {}
        self.judge(fn, env, result, exc, "evaluate")

    def judge(self, fn, env, result, exc, how):
        ctx = self.ctx
        if fn.root is None:
            return
        try:
            tree, source = self.tree_of(fn.formula)
        except (F.FormulaSyntax, IndexError):
            ctx.hit("out_of_domain:formula outside the oracle's grammar")
            return
        used = sorted(names(tree))
        if any(n not in env for n in used):
            ctx.hit("out_of_domain:unresolved variable")
            return
        sizes = {int(np.size(env[n])) for n in used} or {1}
        n = max(sizes)
        if any(s not in (1, n) for s in sizes):
            ctx.hit("out_of_domain:operand sizes differ")
            return
        case = {"formula": fn.formula, "variables": {k: env[k] for k in used}, "via": how}
        if exc is not None:
            mech = f"evaluation raises {type(exc).__name__}"
            msg = str(exc) + repr(exc)
            if "truth value of an array" in msg and F.uses(tree, {"min", "max"}):
                mech += " (min/max given arrays)"
            elif ("oolean" in msg or "Bool" in msg or "bool" in msg) and F.uses(tree, F.RELATIONAL):
                mech += " (boolean result of a relational function used in arithmetic)"
            ctx.violation(mech, dict(case, error=repr(exc)[:200]), "a value", repr(exc)[:200])
            return
        res = np.asarray(result)
        if res.size not in (1, n):
            ctx.violation("array operands do not give an element-wise result", dict(case, result_shape=res.shape), n, res.size)
            return
        ctx.hit(f"compare:{how}:{'array' if n > 1 else 'scalar'} ({source})")
        try:
            post = fn.root.postfix()
        except Exception:
            post = None
        flat = res.astype(float).ravel()
        for j in range(n):
            scalars = {k: float(np.asarray(env[k], dtype=float).ravel()[j if np.size(env[k]) > 1 else 0]) for k in used}
            ctx.evaluated()
            try:
                want = float(F.evaluate(tree, scalars))
            except F.Unspecified:
                ctx.hit("skipped:unspecified (min/max with NaN or signed zeros, round on a half)")
                continue
            got = float(flat[j if flat.size > 1 else 0])
            if not close(got, want):
                mech = "value differs from the formula read with the documented operator table"
                if F.uses(tree, F.RELATIONAL):
                    mech += " (relational indicator in arithmetic)"
                ctx.violation(mech, dict(case, row=j, scalars=scalars), want, got)
                return
            if post is not None:
                try:
                    again = float(F.rpn(post, scalars))
                    ctx.hit("compare:rpn of the loaded tree's postfix")
                    if not close(again, want):
                        ctx.violation("the postfix form of the loaded tree evaluates to another value", dict(case, postfix=post, scalars=scalars), want, again)
                        return
                except (F.Unspecified, KeyError):
                    pass
                except F.FormulaSyntax as ex:
                    ctx.violation("the postfix form of the loaded tree is not a valid postfix expression", dict(case, postfix=post), "valid", str(ex))
                    return
        classify(ctx, tree)
        if F.size(tree) >= 3 and not math.isnan(float(flat[0])):
            ctx.nontrivial(fn.formula, tuple(sorted((k, tuple(np.asarray(v, dtype=float).ravel().tolist())) for k, v in case["variables"].items())))


def names(t):
    if t[0] == "var":
        return {t[1]}
    if t[0] == "num":
        return set()
    out = set()
    for c in t[1:]:
        out |= names(c)
    return out


def classify(ctx, t, parent=None, side=None):
    k = t[0]
    if k in ("num", "var"):
        return
    ctx.hit(f"element:{k}")
    if parent in F.OPERATORS and k in F.OPERATORS:
        pp, kp = F.OPERATORS[parent][0], F.OPERATORS[k][0]
        if pp == kp and F.OPERATORS[k][2] == 2 and F.OPERATORS[parent][2] == 2:
            ctx.hit(f"assoc:{'right' if F.OPERATORS[k][1] else 'left'}-chain at precedence {kp} on the {side} side")
        elif pp != kp:
            ctx.hit(f"precedence:{parent}>{k}" if pp > kp else f"precedence:{parent}<{k}")
    for i, c in enumerate(t[1:]):
        classify(ctx, c, k, "L" if i == 0 and len(t) > 2 else "R")


def ill_formed_variants(rnd, tree, text):
    """exactly one injected error: missing operand, wrong arity, unbalanced parenthesis"""
    toks = text.split()
    out = []
    ops2 = [i for i, t in enumerate(toks) if t in F.OPERATORS and F.OPERATORS[t][2] == 2]
    if ops2:
        i = rnd.choice(ops2)
        out.append(("missing operand", " ".join(toks[:i + 1] + toks[i + 2 :]) if i + 2 <= len(toks) and toks[i + 1] not in ("(",) and toks[i + 1] not in F.FUNCTIONS and toks[i + 1] not in F.OPERATORS else " ".join(toks[: i + 1])))
    out.append(("missing operand", text + " " + rnd.choice(["+", "*", "^", "and"])))
    out.append(("unbalanced parenthesis", "( " + text))
    out.append(("unbalanced parenthesis", text + " )"))
    f = rnd.choice(F.UNARY_F)
    out.append(("wrong arity", f"{f} ( {text} , 1.000 )"))
    out.append(("wrong arity", f"atan2 ( {text} )"))
    out.append(("wrong arity", f"2.000 + pow ( {text} ) * 3.000"))
    out.append(("missing operand", f"{text} 2.000"))
    return out


def run(ctx):
    fl = import_library()
    nform = ctx.scale(4000, 400_000)
    depth = 5
    ctx.rule = (
        f"every Function.load / membership / evaluate call observed. Workload: {nform} well-typed formulas printed from random expression trees (depth <= {depth}) "
        "over all 13 operators, 34 functions/constants, literals and 1-3 variables (engine inputs/outputs, the term's own variables, x), with "
        "minimal or redundant parentheses and random spacing, evaluated on scalar and array values; plus ill-formed variants with exactly one "
        "injected error. distinct_nontrivial = distinct (formula, variable values) with at least one operator/function and a non-NaN result, "
        "plus distinct rejected ill-formed formulas"
    )
    ctx.assumptions += [
        "elementary functions are numpy's own ufuncs on scalars in the oracle as well (the oracle is independent in structure: precedence, associativity, arity, argument order, variable resolution, indicator semantics)",
        "exact comparison with a 1e-12 relative fall-back; min/max with a NaN operand and round on an exact half are unspecified: skipped and counted",
        "literals are non-negative decimals on the 3-decimals grid (the grammar has no literal sign; Node.postfix prints constants with the configured decimals)",
    ]
    funcs = {"Function.parse": plain_function(fl.Function, "parse"), "Function.infix_to_postfix": plain_function(fl.Function, "infix_to_postfix"), "Function.format_infix": plain_function(fl.Function, "format_infix"), "Function.Node.evaluate": fl.Function.Node.evaluate, "Function.membership": fl.Function.membership}
    with Reach(funcs) as reach, Probe() as probe:
        mon = FormulaMonitor(ctx, fl)
        mon.install(probe)
        for i, rnd in ctx.cases("formulas", nform):
            engine = fl.Engine("e", input_variables=[fl.InputVariable("in0"), fl.InputVariable("in1")], output_variables=[fl.OutputVariable("out0")])
            variables = rnd.sample(["in0", "in1", "out0", "x", "k"], rnd.randint(1, 3))
            tree = F.gen_formula(rnd, rnd.randint(1, depth), variables)
            style = i % 4
            text = F.to_text(rnd, tree, redundant=(0.0, 0.3, 0.0, 0.15)[style], tight=(0.0, 0.0, 0.7, 0.4)[style])
            mon.expected[text] = tree
            if F.parse(text) != tree:
                ctx.hit("inconclusive:own parser disagrees with the generator tree")
            try:
                route = i % 7
                kv = rnd.choice([0.5, 2.0, -1.25])
                if route >= 4 and "k" not in variables:
                    route -= 4
                if route >= 4:
                    # a term that carries its own variables and only then meets its engine: built into a new engine, rebuilt from
                    # the engine's Python representation, or given the reference explicitly
                    fn = fl.Function("f", text, variables={"k": kv})
                    if route == 4:
                        engine = fl.Engine("e", input_variables=[fl.InputVariable("in0"), fl.InputVariable("in1")], output_variables=[fl.OutputVariable("out0", terms=[fn])])
                    elif route == 5:
                        first = fl.Engine("e", input_variables=[fl.InputVariable("in0"), fl.InputVariable("in1")], output_variables=[fl.OutputVariable("out0", terms=[fn])])
                        engine = eval(repr(first), {"fl": fl})  # noqa: S307
                        fn = engine.output_variables[0].terms[0]
                    else:
                        fn.update_reference(engine)
                    mon.own = {id(fn): {"k": kv}}
                elif route == 0:
                    fn = fl.Function.create("f", text, engine)
                elif route == 1:
                    fn = fl.Function("f", text, engine, load=True)
                elif route == 2:
                    fn = fl.Function("f", engine=engine)
                    fn.configure(text)
                else:
                    fn = fl.FllImporter().term(f"term: f Function {text}", engine)
                ctx.hit(f"route:{route}")
            except Exception:
                mon.expected.pop(text, None)
                continue  # judged by the monitor
            if "k" in variables and route < 4:
                fn.variables["k"] = rnd.choice([0.5, 2.0, -1.25])
                mon.own = {}
            if i % 5 == 3 and fn.engine is not None and route < 4:
                # the term as it arrives in a copy of its engine (used as it comes): it reads the copy's variables
                try:
                    source = fn.engine
                    source.output_variables[0].terms.append(fn) if not any(t is fn for v in source.variables for t in v.terms) else None
                    dup = source.copy() if i % 10 == 3 else copy.deepcopy(source)
                    twin = next((t for v in dup.variables for t in v.terms if t.name == fn.name and isinstance(t, fl.Function)), None)
                    if twin is not None:
                        for v in source.variables:
                            v.value = 7.0  # whatever the engine it was copied from holds meanwhile
                        if "k" in variables:
                            twin.variables["k"] = fn.variables["k"]
                        fn, engine = twin, dup
                        mon.engines = {id(twin): dup}
                        ctx.hit("route:term of a copied engine")
                except Exception as ex:
                    ctx.hit(f"inconclusive:copy of an engine with a Function term: {type(ex).__name__}")

            def val():
                return rnd.choice([0.0, 1.0, -1.0, 0.5, 2.0, rnd.uniform(-3, 3), rnd.uniform(-3, 3), math.nan if rnd.random() < 0.3 else 1.5, math.inf if rnd.random() < 0.3 else 0.25])

            for rep in range(3):
                batch = rep == 2
                for v in engine.variables:
                    v.value = np.array([val() for _ in range(4)]) if batch else val()
                x = np.array([val() for _ in range(4)]) if batch else val()
                try:
                    fn.membership(x)
                except Exception:
                    pass
                if rep == 0:
                    env = {n: val() for n in variables}
                    try:
                        fn.evaluate(env)
                    except Exception:
                        pass
            if i % 10 == 0:  # name clashes (documented: refused with ValueError)
                for how in ("x-in-term", "x-in-engine", "override"):
                    eng2 = fl.Engine("e", input_variables=[fl.InputVariable("x" if how == "x-in-engine" else "in0"), fl.InputVariable("in1")], output_variables=[fl.OutputVariable("out0")])
                    g = fl.Function.create("g", "in1 + 1.000", eng2)
                    if how == "x-in-term":
                        g.variables["x"] = 1.0
                    if how == "override":
                        g.variables["in1"] = 2.0
                    for v in eng2.variables:
                        v.value = 0.5
                    try:
                        g.membership(0.25)
                    except Exception:
                        pass
            # the same Function object used again: own variables changed in place, then another formula loaded into it
            if "k" in variables:
                mon.own = {}
                for newk in (3.0, -0.5):
                    fn.variables["k"] = newk
                    try:
                        fn.membership(np.array([0.5, 1.5]))
                    except Exception:
                        pass
                ctx.hit("event:term variables changed between calls")
            tree2 = F.gen_formula(rnd, rnd.randint(1, 3), variables)
            text2 = F.to_text(rnd, tree2)
            mon.expected[text2] = tree2
            try:
                fn.formula = text2
                fn.load()
                fn.membership(val())
                fn.evaluate({n: val() for n in variables})
                ctx.hit("event:formula reloaded into the same term")
            except Exception:
                pass
            # O: the engine is edited after the term was evaluated - a variable replaced by a new object of the same name holding
            # another value: the formula reads the engine's variables as they are now
            if fn.engine is not None and i % 3 == 0:
                try:
                    old = fn.engine.input_variables[0]
                    fresh_var = fl.InputVariable(old.name)
                    fresh_var.value = rnd.choice([0.75, -2.0, 3.5])
                    fn.engine.input_variables[0] = fresh_var
                    mon.own = {}
                    fn.membership(val())
                    ctx.hit("event:engine variable replaced after an evaluation")
                except Exception:
                    pass
            mon.expected.pop(text2, None)
            mon.expected.pop(text, None)
            if i % 6 == 0:
                for what, bad in ill_formed_variants(rnd, tree, " ".join(fl.Function.format_infix(text).split())) + [("empty formula", rnd.choice(["", " ", "  "]))]:
                    try:
                        F.parse(bad)
                        ctx.hit("skipped:injected error gives a well-formed formula")
                        continue
                    except (F.FormulaSyntax, IndexError):
                        pass
                    mon.ill_formed.add(bad)
                    ctx.hit(f"ill-formed:{what}")
                    try:
                        if what == "empty formula" and rnd.random() < 0.5:
                            g = fl.Function("g", bad, engine)
                            g.load()  # the other way in
                        else:
                            fl.Function.create("g", bad, engine)
                    except Exception:
                        pass
                    mon.ill_formed.discard(bad)
            if i < 4:
                ctx.sample("formula", {"text": text, "postfix": fn.root.postfix() if fn.root else None, "variables": variables})
        # two terms built from one dictionary of variables, and a caller that goes on using its dictionary: each term has its own
        for i, rnd in ctx.cases("shared variables", ctx.scale(40, 1000)):
            shared = {"k": rnd.choice([0.5, 2.0, -1.25]), "m": 1.5}
            f1 = fl.Function("f1", "k * 2.0 + m", variables=shared, load=True)
            f2 = fl.Function("f2", "k + x", variables=shared, load=True)
            want = dict(shared)
            what = rnd.choice(["caller edits its dictionary", "one term is retuned", "one term is unloaded"])
            if what == "caller edits its dictionary":
                shared["k"] = 99.0
            elif what == "one term is retuned":
                f1.variables["k"] = 99.0
            else:
                f1.unload()
            mon.own = {id(f2): want}
            mon.expected["k + x"] = ("+", ("var", "k"), ("var", "x"))
            try:
                f2.membership(rnd.choice([0.25, 1.0, np.array([0.5, 2.0])]))
            except Exception:
                pass  # judged by the monitor
            mon.own = {}
            mon.expected.pop("k + x", None)
            ctx.hit("event:two terms built from one dictionary of variables")
        # variable names in other alphabets (a formula is text: identifiers are whatever the engine's variables are called)
        for i, rnd in ctx.cases("names", ctx.scale(40, 1000)):
            # (... and names that differ only in case from the functions and constants of the formula language: a variable is whatever
            # the engine and the term call it, `PI` is not `pi`)
            name, own = rnd.choice([("θ", "κ"), ("Δe", "ω_1"), ("ángulo", "k"), ("température", "gain2"), ("in_0", "Ω"), ("PI", "Exp"), ("Floor", "Max"), ("Sin", "E"), ("ABS", "Pi"), ("Min", "SQRT"), ("Round", "Tan")])
            if name[0].isascii():
                ctx.hit("event:variable names that differ only in case from functions of the formula language")
            engine = fl.Engine("e", input_variables=[fl.InputVariable(name)], output_variables=[fl.OutputVariable("out0")])
            a, b = rnd.choice([0.5, 2.0, -1.25]), rnd.choice([0.25, 3.0])
            engine.input_variables[0].value = a
            text = rnd.choice([f"{name} * 2.0 + {own}", f"{own} ^ 2.0 - {name}", f"max({name}, {own}) / 2.0"])
            want = {f"{name} * 2.0 + {own}": a * 2.0 + b, f"{own} ^ 2.0 - {name}": b**2.0 - a, f"max({name}, {own}) / 2.0": max(a, b) / 2.0}[text]
            ctx.evaluated()
            try:
                fn = fl.Function("f", text, engine, variables={own: b}, load=True) if i % 2 else fl.Function.create("f", text, engine)
                fn.variables[own] = b
                got = float(np.asarray(fn.membership(0.0)))
                ctx.hit("event:formula over names in other alphabets evaluated")
                if not close(got, want):
                    ctx.violation("value differs from the formula read with the documented operator table", {"formula": text, "variables": {name: a, own: b}}, want, got)
            except Exception as ex:
                ctx.violation(f"a well-formed formula is rejected ({type(ex).__name__})", {"formula": text}, "loaded", repr(ex)[:200])
        # operators and functions a user registers in the function factory - after formulas have already been read with that
        # factory: the formula language is what the factory holds when the formula is read
        for i, rnd in ctx.cases("registered later", ctx.scale(30, 600)):
            manager = fl.FactoryManager()
            with fl.settings.context(factory_manager=manager):
                engine = fl.Engine("e", input_variables=[fl.InputVariable("in0")], output_variables=[fl.OutputVariable("out0")])
                a = rnd.choice([0.5, 2.0, 3.25, 7.0])
                engine.input_variables[0].value = a
                if i % 3:
                    try:
                        fl.Function.create("warm", "in0 * 2.0 + x", engine).membership(1.0)
                        fl.Rule.create("if in0 is any then out0 is any") if False else None
                    except Exception:
                        pass
                El = fl.Function.Element
                f = manager.function
                f.objects["//"] = El("//", "floor division", El.Type.Operator, np.floor_divide, arity=2, precedence=f.objects["*"].precedence, associativity=-1)
                f.objects["<"] = El("<", "less than", El.Type.Operator, lambda p, q: np.where(np.asarray(p) < np.asarray(q), 1.0, 0.0), arity=2, precedence=60, associativity=-1)
                f.objects["double"] = El("double", "twice", El.Type.Function, lambda p: 2.0 * p, arity=1)
                x = rnd.choice([0.25, 1.0, 2.5])
                cases = {
                    "7.0//2.0+x": 7.0 // 2.0 + x, "in0 // 2.0 * x": (a // 2.0) * x, "double(x)+1.0": 2.0 * x + 1.0, "double ( in0 ) // 2.0": (2.0 * a) // 2.0,
                    "x+1.0<2.0*x": 1.0 if x + 1.0 < 2.0 * x else 0.0, "(in0<x)*4.0": 4.0 if a < x else 0.0,
                }  # fmt: skip
                for text, want in cases.items():
                    ctx.evaluated()
                    try:
                        got = float(np.asarray(fl.Function.create("g", text, engine).membership(x)))
                        ctx.hit("event:formula over operators registered after other formulas were read")
                        if not close(got, want):
                            ctx.violation("value differs from the formula read with the operator table of the factory", {"formula": text, "in0": a, "x": x}, want, got)
                    except Exception as ex:
                        ctx.violation(f"a well-formed formula over registered operators is rejected ({type(ex).__name__})", {"formula": text}, "loaded", repr(ex)[:200])
        probe.report(ctx)
        reach.report(ctx)
    ctx.require("route:term of a copied engine", "ill-formed:empty formula")
    ctx.require("event:formula over operators registered after other formulas were read", "event:variable names that differ only in case from functions of the formula language")
    ctx.require("hook:Function.load", "hook:Function.membership", "hook:Function.evaluate", "compare:membership:scalar (generator tree)", "compare:membership:array (generator tree)", "compare:evaluate:scalar (generator tree)", "compare:rpn of the loaded tree's postfix", "ill-formed:missing operand", "ill-formed:wrong arity", "ill-formed:unbalanced parenthesis", "name clash refused", "event:term variables changed between calls", "event:formula reloaded into the same term", "route:4", "route:5", "route:6", "event:engine variable replaced after an evaluation", "event:two terms built from one dictionary of variables", "event:formula over names in other alphabets evaluated")
    if ctx.nshards == 1:
        for k in list(F.OPERATORS) + list(F.FUNCTIONS):
            ctx.require(f"element:{k}")


def passive(ctx, fl, probe):
    """attach this property's always-on monitor to a foreign workload (the repository's test-suite, see vf/pytest_plugin.py)"""
    mon = FormulaMonitor(ctx, fl)
    mon.install(probe)
    return None
