"""C08 — Activation methods trigger exactly the rules their definition selects.

Deciding step: a trace monitor on Activation.activate (7 classes) records the Rule.deactivate / activate_with / trigger
and Consequent.modify events of one block activation and an offline checker compares the trace, the rules' flags and
degrees and the appended fuzzy terms with a scalar selection model."""
from __future__ import annotations

import copy
import itertools
import math
import operator

import numpy as np

from ..core import import_library
from ..env import ENVIRONMENTS, Held, excusable, hostile
from ..probe import Probe, Reach

WORKERS = {"quick": 1, "thorough": 16}
OPS = {"<": operator.lt, "<=": operator.le, "==": operator.eq, "!=": operator.ne, ">=": operator.ge, ">": operator.gt}
METHODS = ["General", "First", "Last", "Highest", "Lowest", "Proportional", "Threshold"]


def select(kind, params, deg, loaded):
    """Reference selection: indexes of the rules to trigger (in triggering order) and, for Proportional, the new degrees."""
    idx = [k for k in range(len(deg)) if loaded[k]]
    if kind == "General":
        return idx, None
    if kind in ("First", "Last"):
        n, t = params
        sel = []
        for k in idx if kind == "First" else idx[::-1]:
            if len(sel) < n and deg[k] > 0 and deg[k] >= t:
                sel.append(k)
        return sel, None
    if kind in ("Highest", "Lowest"):
        (n,) = params
        pos = [k for k in idx if deg[k] > 0]
        pos.sort(key=(lambda k: (-deg[k], k)) if kind == "Highest" else (lambda k: (deg[k], k)))
        return pos[: max(0, n)], None
    if kind == "Threshold":
        op, t = params
        return [k for k in idx if OPS[op](deg[k], t)], None
    if kind == "Proportional":
        pos = [k for k in idx if deg[k] > 0]
        total = 0.0
        for k in pos:
            total += deg[k]
        return pos, {k: deg[k] / total for k in pos}
    raise KeyError(kind)


def params_of(fl, activation):
    kind = type(activation).__name__
    if kind in ("First", "Last"):
        return kind, (activation.rules, activation.threshold)
    if kind in ("Highest", "Lowest"):
        return kind, (activation.rules,)
    if kind == "Threshold":
        return kind, (activation.comparator.value, activation.threshold)
    return kind, ()


class ActivationMonitor:
    """Always-on: judges every RuleBlock activation of the process whose method is one of the 7 registered classes."""

    def __init__(self, ctx, fl):
        self.ctx, self.fl = ctx, fl
        self.trace = None  # dict while an activation is being observed
        self.rejected = set()  # id(rule) of rules whose load the workload saw rejected
        self.log = []  # (Activated object, degree copy, implication) added by the block activations of the current process()

    def install(self, probe):
        fl = self.fl
        for m in METHODS:
            probe.wrap(getattr(fl, m), "activate", before=self._before, after=self._after)
        probe.wrap(fl.Rule, "deactivate", after=self._event("deactivate"))
        probe.wrap(fl.Rule, "activate_with", after=self._event("activate_with"))
        probe.wrap(fl.Rule, "trigger", before=self._trigger_begin, after=self._trigger_end)
        probe.wrap(fl.Consequent, "modify", before=self._modify_begin, after=self._modify_end)
        probe.wrap(fl.Engine, "process", before=self._process_begin)

    def _process_begin(self, args, kwargs):
        self.log = []
        return None

    def _before(self, args, kwargs):
        block = args[1]
        outs = {}
        for rule in block.rules:
            for c in rule.consequent.conclusions:
                if c.variable is not None and hasattr(c.variable, "fuzzy"):
                    outs[id(c.variable)] = c.variable
        for rule in block.rules:
            if id(rule) in self.rejected and rule.is_loaded():
                self.ctx.violation("a rule whose load was rejected reports loaded and competes for activation", {"rule": rule.text}, False, True)
        self.trace = {
            "block": block,
            "events": [],
            "index": {id(r): k for k, r in enumerate(block.rules)},
            "loaded": [r.is_loaded() for r in block.rules],
            "enabled": [bool(r.enabled) for r in block.rules],
            "outs": outs,
            "len0": {k: len(v.fuzzy.terms) for k, v in outs.items()},
            "in_trigger": None,
            "appended_by": {},
        }
        return self.trace

    def _event(self, name):
        def after(args, kwargs, token, result, exc):
            t = self.trace
            if t is None:
                return
            k = t["index"].get(id(args[0]))
            if k is None:
                return
            if name == "activate_with":
                t["events"].append((name, k, None if exc is not None else np.array(result, dtype=float, copy=True)))
            else:
                t["events"].append((name, k, None))

        return after

    def _trigger_begin(self, args, kwargs):
        t = self.trace
        if t is None:
            return None
        k = t["index"].get(id(args[0]))
        t["in_trigger"] = k
        t["events"].append(("trigger", k, None))
        return k

    def _trigger_end(self, args, kwargs, token, result, exc):
        if self.trace is not None:
            self.trace["in_trigger"] = None

    def _modify_begin(self, args, kwargs):
        t = self.trace
        if t is None:
            return None
        return {k: len(v.fuzzy.terms) for k, v in t["outs"].items()}

    def _modify_end(self, args, kwargs, before, result, exc):
        t = self.trace
        if t is None or before is None:
            return
        added = sum(len(v.fuzzy.terms) - before[k] for k, v in t["outs"].items())
        for k, v in t["outs"].items():
            for act in v.fuzzy.terms[before[k] :]:
                self.log.append((act, np.array(act.degree, dtype=float, copy=True), act.implication))
        who = t["in_trigger"]
        t["events"].append(("modify", who, added))
        t["appended_by"][who] = t["appended_by"].get(who, 0) + added

    def _after(self, args, kwargs, t, result, exc):
        ctx, fl = self.ctx, self.fl
        self.trace = None
        if t is None:
            return
        activation, block = args[0], args[1]
        # what the blocks activated so far in this step have contributed stays as it was contributed
        seen = set()
        for act, deg, imp in self.log:
            now = np.asarray(act.degree, dtype=float)
            if id(act) in seen or act.implication is not imp or now.shape != deg.shape or not bool(np.all((now == deg) | ((now != now) & (deg != deg)))):
                ctx.violation("a contribution made earlier in the step is changed by a later trigger (one activated-term object contributed twice)", {"term": act.term.name, "block": block.name}, [deg, str(imp)], [now, str(act.implication)])
                self.log = []
                break
            seen.add(id(act))
        kind, params = params_of(fl, activation)
        rules = block.rules
        n = len(rules)
        degs_seen = {k: d for name, k, d in t["events"] if name == "activate_with" and d is not None}
        vector = any(np.size(d) > 1 for d in degs_seen.values())
        case = {"method": kind, "params": list(params), "loaded": t["loaded"], "enabled": t["enabled"], "degrees": {k: degs_seen[k] for k in sorted(degs_seen)}}
        ctx.evaluated()
        if vector:
            if kind == "General":
                ctx.hit("event:general_batch")
                return  # batches under General are C01/C02's business
            ctx.hit(f"batch:{kind}")
            if exc is None:
                ctx.violation(f"{kind}: a batch of activation degrees was accepted instead of rejected", case, "ValueError", "returned normally")
            elif not isinstance(exc, ValueError):
                ctx.violation(f"{kind}: a batch of activation degrees raised {type(exc).__name__} instead of ValueError", case, "ValueError", repr(exc))
            else:
                ctx.nontrivial("batch-rejected", kind, n)
            return
        if exc is not None:
            ctx.hit(f"event:activate_raised:{type(exc).__name__}")
            return  # a missing operator etc. - not this property's business
        if any(math.isnan(float(d)) for d in degs_seen.values()):
            # a NaN degree (an input that was never set) is neither > 0 nor >= t: the definitions select such a rule only
            # under General and under Threshold with `!=`
            ctx.hit("piece:NaN activation degree")
        ctx.hit(f"method:{kind}")
        # (1) every loaded rule computed its degree exactly once, unloaded rules never
        counts = {}
        for name, k, _ in t["events"]:
            if name == "activate_with":
                counts[k] = counts.get(k, 0) + 1
        for k in range(n):
            want = 1 if t["loaded"][k] else 0
            if counts.get(k, 0) != want:
                ctx.violation(f"{kind}: a rule's activation degree was computed {counts.get(k, 0)} times instead of {want}", dict(case, rule=k), want, counts.get(k, 0))
        deg = [float(degs_seen.get(k, 0.0)) for k in range(n)]
        sel, newdeg = select(kind, params, deg, t["loaded"])
        trig = [k for name, k, _ in t["events"] if name == "trigger"]
        # (2) the triggered rules are exactly the model's selection
        # (trigger events of disabled rules are not observable effects: Rule.trigger does nothing for them)
        trig_on, sel_on = sorted(k for k in trig if t["enabled"][k]), sorted(k for k in sel if t["enabled"][k])
        if trig_on != sel_on:
            ctx.violation(f"{kind}: triggered rules differ from the definition's selection", dict(case, deg=deg), sel_on, trig_on)
        elif trig != sel:
            ctx.hit("note:same selection, different triggering order")
        # (3) contributions only from triggered, enabled rules; nothing appended outside Consequent.modify
        total_added = sum(len(v.fuzzy.terms) - t["len0"][k] for k, v in t["outs"].items())
        by_rule = t["appended_by"]
        if total_added != sum(by_rule.values()):
            ctx.violation(f"{kind}: fuzzy terms appended outside a rule's consequent", case, sum(by_rule.values()), total_added)
        for who, added in by_rule.items():
            if who is None or who not in sel or not t["enabled"][who]:
                if added:
                    ctx.violation(f"{kind}: a rule that was not selected (or is disabled) contributed to a fuzzy output", dict(case, rule=who), 0, added)
        for k in sel:
            if t["enabled"][k]:
                want = sum(1 for c in rules[k].consequent.conclusions if c.variable is not None and c.variable.enabled)
                if by_rule.get(k, 0) != want:
                    ctx.violation(f"{kind}: a selected rule contributed {by_rule.get(k, 0)} terms instead of {want}", dict(case, rule=k), want, by_rule.get(k, 0))
        # (4) flags and degrees afterwards
        for k, rule in enumerate(rules):
            final = (newdeg[k] if (newdeg and k in newdeg) else deg[k]) if t["loaded"][k] else 0.0
            got_deg = float(np.asarray(rule.activation_degree))
            tol = 1e-15 if kind == "Proportional" else 0.0
            if not (abs(got_deg - final) <= tol or (math.isnan(got_deg) and math.isnan(final))):
                ctx.violation(f"{kind}: rule's activation degree after activation differs", dict(case, rule=k), final, got_deg)
            want_trig = (k in sel) and t["enabled"][k] and final > 0.0
            got_trig = bool(np.asarray(rule.triggered))
            if got_trig != want_trig:
                ctx.violation(f"{kind}: rule.triggered is {got_trig}, expected {want_trig}", dict(case, rule=k, degree=final), want_trig, got_trig)
        # evidence: what kind of case was this
        pos = [d for k, d in enumerate(deg) if t["loaded"][k] and d > 0]
        if len(set(pos)) < len(pos):
            ctx.hit(f"piece:{kind}:tie")
        if any(d == 0 for k, d in enumerate(deg) if t["loaded"][k]):
            ctx.hit(f"piece:{kind}:zero-degree")
        if not all(t["enabled"]):
            ctx.hit(f"piece:{kind}:disabled-rule")
        if not all(t["loaded"]):
            ctx.hit(f"piece:{kind}:unloaded-rule")
        if kind in ("First", "Last", "Highest", "Lowest"):
            eligible = len([k for k in range(n) if t["loaded"][k] and deg[k] > 0])
            ctx.hit(f"piece:{kind}:{'n>eligible' if params[0] > eligible else 'n==eligible' if params[0] == eligible else 'n<eligible'}")
        if kind in ("First", "Last", "Threshold") and any(d == params[-1] for d in deg):
            ctx.hit(f"piece:{kind}:threshold-equals-a-degree")
        if len(sel) not in (0, sum(t["loaded"])) or kind == "Proportional":
            ctx.nontrivial(kind, tuple(params), tuple(deg), tuple(t["loaded"]), tuple(t["enabled"]))


# ---- workload ------------------------------------------------------------------------------------------------------------


REJECTED, KEEP = set(), []


def rnd_tail(k):
    """what makes a consequent unloadable after a first good conclusion"""
    return [" and nosuchvariable is x", " and o is nosuchterm", " and o is", " and", " and i0 is t"][k % 5]


def make_engine(fl, n, weights, enabled, loaded, two_outputs=False):
    """Rule k reads its own input through Ramp(0,1): its degree is exactly weight_k x input_k."""
    ivs = [fl.InputVariable(f"i{k}", minimum=0.0, maximum=1.0, terms=[fl.Ramp("t", 0.0, 1.0)]) for k in range(n)]
    ovs = [fl.OutputVariable("o", minimum=0.0, maximum=1.0, aggregation=fl.Maximum(), defuzzifier=fl.Centroid(10), terms=[fl.Triangle(f"t{k}", 0.0, 0.5, 1.0) for k in range(n)])]
    if two_outputs:
        ovs.append(fl.OutputVariable("p", minimum=0.0, maximum=1.0, aggregation=fl.Maximum(), defuzzifier=fl.Centroid(10), terms=[fl.Triangle("u", 0.0, 0.5, 1.0)]))
    e = fl.Engine("e", input_variables=ivs, output_variables=ovs)
    rules = []
    for k in range(n):
        text = f"if i{k} is t then o is t{k}" + (" and p is u" if two_outputs and k % 2 == 0 else "") + (rnd_tail(k) if loaded[k] == "rejected" else "") + (f" with {weights[k]}" if weights[k] != 1 else "")
        r = fl.Rule.create(text)
        if loaded[k] == "rejected":
            try:
                r.load(e)
            except Exception:
                pass
            REJECTED.add(id(r))
            KEEP.append(r)
        elif loaded[k]:
            r.load(e)
        r.enabled = enabled[k]
        rules.append(r)
    e.rule_blocks = [fl.RuleBlock("rb", conjunction=fl.Minimum(), disjunction=fl.Maximum(), implication=fl.Minimum(), rules=rules)]
    return e


def all_methods(fl, n, thresholds):
    acts = [("General", ())]
    acts += [(k, (m, t)) for k in ("First", "Last") for m in range(0, n + 2) for t in thresholds]
    acts += [(k, (m,)) for k in ("Highest", "Lowest") for m in range(0, n + 2)]
    acts += [("Threshold", (op, t)) for op in OPS for t in thresholds]
    acts += [("Proportional", ())]
    return acts


FORMS = ["float", "float", "0-d array", "array of one", "1x1 array", "one row through Engine.input_values"]
ROUTES = ["constructor", "constructor", "factory and configure", "FLL importer"]


def make_activation(fl, kind, params, route):
    """the same activation method through the routes a user has: the constructor, the factory followed by
    configure(parameters) (what Engine.configure by name and the FLL importer do), or FllImporter.activation(text)"""
    text = " ".join(fl.Op.str(p) if isinstance(p, float) else str(p) for p in params)
    if route == "factory and configure":
        a = fl.settings.factory_manager.activation.construct(kind)
        a.configure(text)
        return a
    if route == "FLL importer":
        return fl.FllImporter().activation(f"{kind} {text}".strip())
    return getattr(fl, kind)(*params)


def drive(ctx, fl, e, vals, acts, weights, instances=None, form="float", route="constructor", churn=None):
    rb = e.rule_blocks[0]
    for kind, params in acts:
        # (instances: one activation object per method/parameters reused over all degree vectors - no state may survive)
        with fl.settings.context(decimals=9):
            rb.activation = instances.setdefault((kind, params), make_activation(fl, kind, params, route)) if instances is not None else make_activation(fl, kind, params, route)
        ctx.hit("route:" + route)
        ctx.hit("input form:" + form)
        if churn is not None:
            # rules are unloaded, loaded again, disabled and enabled between activations: what an earlier activation left
            # on a rule (degree, triggered) must not survive its unloading
            for rule in rb.rules:
                c = churn.random()
                if c < 0.12 and rule.is_loaded():
                    rule.unload()
                    ctx.hit("event:a rule that took part in an activation is unloaded")
                elif c < 0.3 and not rule.is_loaded():
                    try:
                        rule.load(e)
                    except Exception:
                        if id(rule) not in REJECTED:
                            raise
                elif c < 0.4:
                    rule.enabled = not rule.enabled
        if form == "one row through Engine.input_values":
            e.input_values = np.array([list(vals)], dtype=float)
        else:
            for k, v in enumerate(vals):
                e.input_variables[k].value = {"float": float, "0-d array": np.array, "array of one": lambda x: np.array([x]), "1x1 array": lambda x: np.array([[x]])}[form](v)
        try:
            with hostile(fl, ENV[0], ctx):
                e.process()
        except Exception as ex:  # a valid constructed block must be processable
            ctx.violation(f"{kind}: processing a valid rule block raised {type(ex).__name__}", {"method": kind, "params": list(params), "inputs": list(vals)}, "no error", repr(ex))
            continue
        if HELD:
            # what the previous activation left for a caller to read (degrees, flags, output values) is that caller's to keep:
            # this activation must not have rewritten those objects
            held = HELD[0]
            held.check(f"the next activation ({kind})")
            held.clear()
            for rule in rb.rules:
                held.keep("Rule.triggered", rule.triggered)
                held.keep("Rule.activation_degree", rule.activation_degree)
            for ov in e.output_variables:
                held.keep("OutputVariable.value", ov.value)
        # the degrees are known by construction: weight x input (exact on the dyadic alphabet)
        for k, rule in enumerate(rb.rules):
            if rule.is_loaded() and kind != "Proportional":
                exp = weights[k] * vals[k]
                got = float(np.asarray(rule.activation_degree))
                if got != exp and not (math.isnan(got) and math.isnan(exp)):
                    ctx.violation("activation degree differs from weight x input in the constructed block", {"rule": k, "method": kind, "input": vals[k], "weight": weights[k]}, exp, got)


HELD = []
ENV = [None]  # the environment the next activations run in (set per case by the workload)


def run(ctx):
    fl = import_library()
    HELD[:] = [Held(ctx)]
    ctx.excuse = lambda mechanism, observed, note: excusable(observed)
    maxn = ctx.scale(3, 5)
    ctx.rule = (
        f"exhaustive: rule blocks of 1..{maxn} rules, degrees over the alphabet {{0, 0.25, 0.5, 1}} (ties and zeros arise), every activation method "
        "with n = 0..rules+1, thresholds {0, 0.25, 0.3, 1} (on and off the degrees), all 6 comparators, one disabled or unloaded rule in "
        "every position; plus random blocks of 5-8 rules with weights and two outputs, and every non-General method given a 2-row batch. "
        "distinct_nontrivial = distinct (method, parameters, degree vector, loaded, enabled) where the selection is a proper non-empty subset "
        "(or Proportional), plus rejected batches"
    )
    ctx.assumptions += ["degrees are those returned by Rule.activate_with (their correctness is C06's business); in the constructed blocks they are also checked against weight x input", "Proportional degrees compared with 1e-15"]
    funcs = {f"{m}.activate": getattr(fl, m).activate for m in METHODS}
    funcs["Activation.assert_is_not_vector"] = fl.Activation.assert_is_not_vector
    with Reach(funcs) as reach, Probe() as probe:
        mon = ActivationMonitor(ctx, fl)
        mon.install(probe)
        mon.rejected = REJECTED
        alpha = [0.0, 0.25, 0.5, 1.0]
        thresholds = (0.0, 0.25, 0.3, 1.0)
        configs = []
        for n in range(1, maxn + 1):
            for special in [None] + [(k, m) for k in range(n) for m in ("disabled", "unloaded", "rejected") if m != "rejected" or k in (0, n - 1)]:
                configs.append((n, special))
        for i, rnd in ctx.cases("exhaustive", len(configs)):
            n, special = configs[i]
            enabled, loaded = [True] * n, [True] * n
            if special:
                if special[1] == "disabled":
                    enabled[special[0]] = False
                else:
                    loaded[special[0]] = False if special[1] == "unloaded" else "rejected"
            weights = [1] * n
            e = make_engine(fl, n, weights, enabled, loaded)
            acts = all_methods(fl, n, thresholds)
            instances = {} if i % 2 == 0 else None
            for j, vals in enumerate(itertools.product(alpha + ([math.nan] if n <= 2 else []), repeat=n)):
                drive(ctx, fl, e, vals, acts, weights, instances, form=FORMS[(i + j) % len(FORMS)], route=ROUTES[i % len(ROUTES)])
            if instances is not None:
                ctx.hit("event:activation instances reused")
            if i % 5 == 0:
                ctx.sample("exhaustive", {"rules": n, "special": special, "degree_vectors": f"{len(alpha)}^{n}", "methods": len(acts)})
        for i, rnd in ctx.cases("random", ctx.scale(150, 50_000)):
            n = rnd.randrange(5, 9)
            weights = [rnd.choice([1, 0.5, 0.25, 0.75]) for _ in range(n)]
            enabled = [rnd.random() > 0.15 for _ in range(n)]
            loaded = [rnd.choice([True] * 8 + [False, "rejected"]) for _ in range(n)]
            e = make_engine(fl, n, weights, enabled, loaded, two_outputs=rnd.random() < 0.5)
            if rnd.random() < 0.2:
                e.output_variables[0].enabled = False
            acts = rnd.sample(all_methods(fl, n, (0.0, 0.125, 0.25, 0.3, 0.5, 1.0)), 12)
            vals = [rnd.choice([0.0, 0.125, 0.25, 0.5, 0.5, 1.0, rnd.randrange(0, 17) / 16, 1e-17, 1e-300, 5e-324, math.nan]) for _ in range(n)]
            ENV[0] = ENVIRONMENTS[(i // 4) % len(ENVIRONMENTS)] if i % 4 == 1 else None
            drive(ctx, fl, e, vals, acts, weights, form=rnd.choice(FORMS), route=rnd.choice(ROUTES))
            ENV[0] = None
            if i % 5 == 2:
                # the block as it arrives in a copy of its engine, used as it comes and fed other values than the original holds
                try:
                    dup = e.copy() if i % 10 == 2 else copy.deepcopy(e)
                    for rule_o, rule_d in zip(e.rule_blocks[0].rules, dup.rule_blocks[0].rules):
                        if id(rule_o) in REJECTED:
                            REJECTED.add(id(rule_d))
                            KEEP.append(rule_d)
                    KEEP.append(dup)
                    vals2 = [rnd.choice([0.0, 0.125, 0.25, 0.5, 1.0, rnd.randrange(0, 17) / 16]) for _ in range(n)]
                    drive(ctx, fl, dup, vals2, rnd.sample(acts, 4), weights)
                    ctx.hit("workload:block of a copied engine")
                except Exception as ex:
                    ctx.hit(f"inconclusive:copy of the constructed engine: {type(ex).__name__}")
            # the same block driven again while its rules are unloaded / reloaded / disabled in between
            for _ in range(3):
                vals = [rnd.choice([0.0, 0.125, 0.25, 0.5, 0.5, 1.0, rnd.randrange(0, 17) / 16]) for _ in range(n)]
                drive(ctx, fl, e, vals, rnd.sample(acts, 4), weights, form=rnd.choice(FORMS), route=rnd.choice(ROUTES), churn=rnd)
            if i < 2:
                ctx.sample("random", {"rules": n, "weights": weights, "enabled": enabled, "loaded": loaded, "inputs": vals, "methods": [[k, list(p)] for k, p in acts[:4]]})
        # blocks in which every positive degree is tiny (their sum, and its reciprocal, at the ends of the double range)
        for i, rnd in ctx.cases("tiny degrees", ctx.scale(40, 800)):
            n = rnd.randrange(2, 6)
            weights = [1] * n
            e = make_engine(fl, n, weights, [True] * n, [True] * n)
            vals = [rnd.choice([0.0, 5e-324, 1e-323, 1e-320, 1e-310, 3e-309, 2e-308]) for _ in range(n)]
            acts = [("Proportional", ()), ("General", ()), ("Highest", (1,)), ("Lowest", (2,)), ("First", (1, 0.0)), ("Threshold", (">", 0.0))]
            drive(ctx, fl, e, vals, acts, weights, form=rnd.choice(FORMS))
            ctx.hit("workload:every positive degree is subnormal or next to it")
        # one list of rule objects handed to two rule blocks with methods and operators of their own
        for i, rnd in ctx.cases("shared rules", ctx.scale(30, 1500)):
            n = rnd.randrange(2, 6)
            weights = [rnd.choice([1, 0.5, 0.25]) for _ in range(n)]
            e = make_engine(fl, n, weights, [True] * n, [True] * n, two_outputs=rnd.random() < 0.5)
            first = e.rule_blocks[0]
            methods = rnd.sample(all_methods(fl, n, (0.0, 0.25)), 2)
            first.activation = getattr(fl, methods[0][0])(*methods[0][1])
            e.rule_blocks.append(fl.RuleBlock("again", conjunction=fl.AlgebraicProduct(), disjunction=fl.AlgebraicSum(), implication=fl.AlgebraicProduct(), activation=getattr(fl, methods[1][0])(*methods[1][1]), rules=list(first.rules)))
            for k, v in enumerate([rnd.choice([0.0, 0.25, 0.5, 1.0, rnd.randrange(0, 17) / 16]) for _ in range(n)]):
                e.input_variables[k].value = v
            try:
                e.process()
            except Exception as ex:
                ctx.violation(f"processing two blocks that share their rule objects raised {type(ex).__name__}", {"methods": [m[0] for m in methods]}, "no error", repr(ex))
            ctx.hit("workload:rule objects shared by two blocks")
        # long blocks: more than 64 rules with a positive degree and many ties
        for i, rnd in ctx.cases("long blocks", ctx.scale(3, 60)):
            n = rnd.choice([66, 80, 100])
            weights = [1] * n
            e = make_engine(fl, n, weights, [True] * n, [True] * n)
            acts = [("General", ()), ("Proportional", ())] + [(k, (m,)) for k in ("Highest", "Lowest") for m in (1, 3, 5, 17, 64, 65)] + [(k, (m, t)) for k in ("First", "Last") for m in (3, 65) for t in (0.0, 0.25)] + [("Threshold", (">=", 0.25))]
            for _ in range(2):
                vals = [rnd.choice([0.125, 0.25, 0.25, 0.5, 0.5, 0.5, 1.0, 0.0]) for _ in range(n)]
                drive(ctx, fl, e, vals, acts, weights)
            ctx.hit("workload:block of more than 64 rules")
        # degenerate blocks: no rules at all, or no loaded rule
        for i, rnd in ctx.cases("degenerate", 2):
            for kind, params in all_methods(fl, 2, (0.0, 0.5)):
                e = make_engine(fl, 2, [1, 1], [True, True], [False, False] if i else [True, True])
                if i == 0:
                    e.rule_blocks[0].rules.clear()
                e.rule_blocks[0].activation = getattr(fl, kind)(*params)
                for k, v in enumerate((0.5, 1.0)):
                    e.input_variables[k].value = v
                try:
                    e.process()
                except Exception as ex:
                    ctx.violation(f"{kind}: processing a rule block without (loaded) rules raised {type(ex).__name__}", {"method": kind, "params": list(params)}, "no error", repr(ex))
                ctx.hit("piece:block without loaded rules")
        # batches: every non-General method must reject them
        batch_methods = [(k, p) for k, p in all_methods(fl, 2, (0.0, 0.5)) if k != "General"]
        for i, rnd in ctx.cases("batch", len(batch_methods)):
            kind, params = batch_methods[i]
            e = make_engine(fl, 2, [1, 1], [True, True], [True, True])
            e.rule_blocks[0].activation = getattr(fl, kind)(*params)
            for size in (2, 3):
                e.input_variables[0].value = np.array([0.25, 0.5, 1.0][:size])
                e.input_variables[1].value = np.array([0.5, 0.0, 1.0][:size])
                try:
                    e.process()
                except Exception:
                    pass  # judged by the monitor
        probe.report(ctx)
        reach.report(ctx)
    ctx.exhaustive = True
    ctx.extra["exhaustive_space"] = f"blocks of 1..{maxn} rules x 4^n degree vectors x all method parameterisations x one disabled/unloaded rule in each position"
    for m in METHODS:
        ctx.require(f"hook:{m}.activate", f"method:{m}")
        if m != "General":
            ctx.require(f"batch:{m}")
    for m in ("Highest", "Lowest", "First", "Last"):
        ctx.require(f"piece:{m}:tie", f"piece:{m}:n>eligible", f"piece:{m}:n<eligible", f"piece:{m}:disabled-rule", f"piece:{m}:unloaded-rule")
    ctx.require("workload:block of a copied engine", *[f"environment:{e}" for e in ENVIRONMENTS])
    ctx.require("workload:every positive degree is subnormal or next to it", "law:values handed out earlier are left alone")
    ctx.require("piece:Threshold:threshold-equals-a-degree", "piece:First:threshold-equals-a-degree", "event:activation instances reused", "piece:block without loaded rules", "event:a rule that took part in an activation is unloaded", "piece:NaN activation degree", "workload:rule objects shared by two blocks", "workload:block of more than 64 rules")
    for r in ROUTES:
        ctx.require("route:" + r)
    for f in FORMS:
        ctx.require("input form:" + f)


def passive(ctx, fl, probe):
    """attach this property's always-on monitor to a foreign workload (the repository's test-suite, see vf/pytest_plugin.py)"""
    mon = ActivationMonitor(ctx, fl)
    mon.install(probe)
    return None
