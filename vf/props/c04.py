"""C04 — T-norms and S-norms compute their formulas and obey the norm laws.

Deciding step: a monitor on `compute` of the 16 norm classes compares every observed element with the scalar
formula and records the observed (a, b) -> result table; an offline pass over that table checks the laws.
Associativity is observed through nested monitored calls."""
from __future__ import annotations

import itertools
import math

import numpy as np

from ..core import import_library
from ..env import ENVIRONMENTS, excusable, hostile
from ..probe import Probe, Reach, ResultKeeper, check_unmutated, snapshot_arrays
from ..ref import norms as R

WORKERS = {"quick": 1, "thorough": 16}
MAX_JUDGED = 6000  # elements per call judged one by one; beyond that a seeded sample + branch neighbours


def near(x, y, tol):
    return x == y or abs(x - y) <= tol or (math.isnan(x) and math.isnan(y))


def dyadic(x):
    return x * 4096.0 == math.floor(x * 4096.0)


def tolerance(name, a, b):
    """0 where the arithmetic of the definition is exact (min/max/bounded/drastic/nilpotent on dyadic operands), 1e-12
    elsewhere; HamacherSum divides by 1-ab, so its rounding error grows like u/(1-ab) (conditioning-aware term)."""
    if name in R.EXACT and dyadic(a) and dyadic(b):
        return 0.0
    tol = 1e-12
    if name == "HamacherSum" and a * b < 1.0:
        tol += 8e-16 / (1.0 - a * b)
    return tol


class NormMonitor:
    """Judges every Norm.compute call whose operands lie in [0,1] (the property's domain)."""

    def __init__(self, ctx, fl, table=True):
        self.ctx, self.fl = ctx, fl
        self.table = {n: {} for n in R.REF} if table else None
        self.sel = __import__("random").Random(f"c04sel:{ctx.seed}:{ctx.shard}")
        self.keeper = None  # ResultKeeper, set by the check's own workload

    def install(self, probe):
        for name in R.REF:
            cls = getattr(self.fl, name)
            probe.wrap(cls, "compute", before=snapshot_arrays, after=self._after(name))

    def _after(self, name):
        def after(args, kwargs, token, result, exc):
            a = check_unmutated(self.ctx, f"{name}.compute", args, token, 1)
            b = check_unmutated(self.ctx, f"{name}.compute", args, token, 2)
            if self.keeper is not None and exc is None:
                self.keeper.after_call(f"{name}.compute", result, args[1:3])
            self.judge(name, a, b, result, exc)

        return after

    def judge(self, name, a, b, result, exc):
        ctx = self.ctx
        try:
            A = np.asarray(a, dtype=float)
            B = np.asarray(b, dtype=float)
        except Exception:
            ctx.hit("out_of_domain:non-numeric")
            return
        if exc is not None:
            ctx.violation(f"{name}.compute raises {type(exc).__name__}", {"norm": name, "a": A, "b": B}, "a value", repr(exc))
            return
        try:
            shape = np.broadcast_shapes(A.shape, B.shape)
        except ValueError:
            ctx.hit("out_of_domain:unbroadcastable")
            return
        Rr = np.asarray(result)
        if Rr.shape != shape:
            ctx.violation(f"{name}: result shape differs from broadcast shape", {"norm": name, "a_shape": A.shape, "b_shape": B.shape}, shape, Rr.shape)
            return
        ft = np.dtype(self.fl.settings.float_type)
        narrow = ft != np.dtype(np.float64)
        if narrow:
            # the library works in its configured float type: the operands are what they become there, and the formula is
            # judged at that type's precision (laws over the recorded table are left to the float64 runs)
            A, B = A.astype(ft).astype(float), B.astype(ft).astype(float)
            ctx.hit(f"float_type:{ft.name}")
        Ab, Bb = np.broadcast_to(A, shape).ravel(), np.broadcast_to(B, shape).ravel()
        Rf = Rr.astype(float).ravel()
        n = Ab.size
        ctx.hit(f"calls:{name}:{'scalar' if n == 1 and not shape else f'{len(shape)}d'}")
        if n <= MAX_JUDGED:
            idx = range(n)
        else:
            idx = set(self.sel.sample(range(n), 256))
            s = Ab + Bb
            idx |= set(np.argsort(np.abs(s - 1.0))[:32].tolist())
            idx |= set(np.argsort(np.minimum(Ab, Bb))[:16].tolist()) | set(np.argsort(-np.maximum(Ab, Bb))[:16].tolist())
            idx |= set(range(48)) | set(range(n - 48, n))  # the two ends (the last, incomplete block of a block-wise evaluation)
            ctx.hit("elements_not_judged", n - len(idx))
        ref = R.REF[name]
        exact = name in R.EXACT
        tab = self.table[name] if (self.table is not None and not narrow) else None
        for i in idx:
            x, y, r = float(Ab[i]), float(Bb[i]), float(Rf[i])
            if narrow:
                if not (0.0 <= x <= 1.0 and 0.0 <= y <= 1.0):
                    continue
                ctx.evaluated()
                e = ref(x, y)
                eps = float(np.finfo(ft).eps)
                tol = 32 * eps + (8 * eps / max(1.0 - x * y, eps) if name == "HamacherSum" else 0.0)
                piece, dist = R.branch(name, x, y)
                if not near(r, e, tol):
                    if piece and 0 < dist <= 64 * eps and not name.startswith("Drastic"):
                        ctx.hit("ambiguous:next to a branch point")
                    else:
                        ctx.violation(f"{name}: value differs from the documented formula", {"norm": name, "a": x, "b": y, "float_type": ft.name}, e, r)
                elif name != "UnboundedSum" and not (-4 * eps <= r <= 1.0 + 4 * eps):
                    ctx.violation(f"{name}: result outside [0,1]", {"norm": name, "a": x, "b": y, "float_type": ft.name}, "[0,1]", r)
                continue
            if not (0.0 <= x <= 1.0 and 0.0 <= y <= 1.0):
                ctx.hit("out_of_domain:operand outside [0,1]")
                continue
            ctx.evaluated()
            piece, dist = R.branch(name, x, y)
            if piece:
                ctx.hit(f"piece:{name}:{piece}")
            e = ref(x, y)
            if not near(r, e, tolerance(name, x, y)):
                if piece and 0 < dist <= 1e-12 and not name.startswith("Drastic"):
                    # (the drastic norms branch on an operand being exactly 0 or 1: nothing is rounded, nothing is ambiguous)
                    ctx.hit("ambiguous:next to a branch point")
                else:
                    ctx.violation(f"{name}: value differs from the documented formula", {"norm": name, "a": x, "b": y, "piece": piece}, e, r)
                continue
            if name != "UnboundedSum" and not (-1e-15 <= r <= 1.0 + 1e-15):
                ctx.violation(f"{name}: result outside [0,1]", {"norm": name, "a": x, "b": y}, "[0,1]", r)
            elif name != "UnboundedSum" and not (0.0 <= r <= 1.0):
                ctx.hit("ambiguous:result outside [0,1] by <=4ulp")
            if not (x in (0.0, 1.0) and y in (0.0, 1.0)):
                ctx.nontrivial(name, x, y)
            if tab is not None and len(tab) < 300_000:
                tab[(x, y)] = r

    # ---- offline pass over the recorded table -------------------------------------------------------------
    def check_laws(self):
        ctx = self.ctx
        for name, tab in self.table.items():
            is_t = name in R.TNORMS
            ident, annih = (1.0, 0.0) if is_t else (0.0, 1.0)
            by_b = {}
            for (a, b), r in tab.items():
                ctx.evaluated()
                tol = tolerance(name, a, b)
                rr = tab.get((b, a))
                if rr is not None:
                    ctx.hit(f"law:{name}:commutativity")
                    if not near(r, rr, tol):
                        ctx.violation(f"{name}: not commutative", {"norm": name, "a": a, "b": b}, rr, r)
                if is_t:
                    ctx.hit(f"law:{name}:le-min")
                    if r > min(a, b) + tol:
                        ctx.violation(f"{name}: exceeds min(a,b)", {"norm": name, "a": a, "b": b}, f"<= {min(a, b)}", r)
                elif name != "UnboundedSum":
                    ctx.hit(f"law:{name}:ge-max")
                    if r < max(a, b) - tol:
                        ctx.violation(f"{name}: below max(a,b)", {"norm": name, "a": a, "b": b}, f">= {max(a, b)}", r)
                if b == ident:
                    ctx.hit(f"law:{name}:identity")
                    if not near(r, a, tol):
                        ctx.violation(f"{name}: {ident} is not the identity", {"norm": name, "a": a, "b": b}, a, r)
                if b == annih and name != "UnboundedSum":
                    ctx.hit(f"law:{name}:annihilator")
                    if not near(r, annih, tol):
                        ctx.violation(f"{name}: {annih} is not the annihilator", {"norm": name, "a": a, "b": b}, annih, r)
                by_b.setdefault(b, []).append((a, r))
                if is_t:
                    s = self.table[R.DUAL[name]].get((1.0 - a, 1.0 - b))
                    # only where 1-a, 1-b are exact complements (dyadic grid): (1-(1-a)) == a
                    if s is not None and 1.0 - (1.0 - a) == a and 1.0 - (1.0 - b) == b:
                        ctx.hit(f"law:{name}:duality")
                        if not near(s, 1.0 - r, max(tol, tolerance(R.DUAL[name], 1.0 - a, 1.0 - b))):
                            ctx.violation(f"{name}/{R.DUAL[name]}: S(1-a,1-b) != 1-T(a,b)", {"tnorm": name, "a": a, "b": b, "T": r}, 1.0 - r, s)
            for b, col in by_b.items():
                if len(col) < 2:
                    continue
                col.sort()
                ctx.hit(f"law:{name}:monotonicity", len(col) - 1)
                prev_a, prev_r = col[0]
                for a, r in col[1:]:
                    tol = max(tolerance(name, a, b), tolerance(name, prev_a, b))
                    if r < prev_r - tol:
                        ctx.violation(f"{name}: not monotone in a", {"norm": name, "b": b, "a_lo": prev_a, "a_hi": a}, f">= {prev_r}", r)
                    prev_a, prev_r = a, r


def specials(rnd, n):
    """Random doubles in [0,1] biased to the places the definitions branch on."""
    out = []
    for _ in range(n):
        c = rnd.random()
        if c < 0.5:
            out.append(rnd.random())
        elif c < 0.6:
            out.append(rnd.choice([0.0, 1.0, 0.5, math.nextafter(0.0, 1.0), math.nextafter(1.0, 0.0), 5e-324, 1e-300, 1e-17, 1 - 1e-16]))
        elif c < 0.8:
            out.append(rnd.randrange(0, 1025) / 1024)
        else:
            out.append(min(1.0, max(0.0, rnd.choice([0.0, 1.0, 0.5]) + rnd.uniform(-1e-9, 1e-9))))
    return out


def run(ctx):
    fl = import_library()
    ctx.level = "exploration"
    m = ctx.scale(4, 7)
    nrand = ctx.scale(2000, 1_000_000 // max(1, ctx.nshards))
    ctx.rule = (
        f"every Norm.compute call observed: element compared with the scalar formula; laws checked over the recorded (a,b)->result "
        f"table. Workload: exhaustive dyadic grid k/2^{m} pairs and triples per norm, random doubles biased to 0, 1, a+b=1±ulp, "
        "scalar/1-D/2-D/broadcast operands. distinct_nontrivial = distinct (norm,a,b) judged with not both operands in {0,1}"
    )
    ctx.assumptions += [
        "tolerance 0 for min/max/bounded/drastic/nilpotent norms (exact arithmetic on the dyadic grid), 1e-12 for Algebraic/Einstein/Hamacher/Normalized",
        "a mismatch within 1e-12 of a branch point that depends on a rounded sum or product (a+b = 1, ab = 1) is counted ambiguous, not a violation; the drastic norms branch on an operand being exactly 0 or 1 and are judged everywhere",
        "NormalizedSum is exempt from associativity (as the property says)",
    ]
    grid = np.array([k / 2**m for k in range(2**m + 1)])
    funcs = {f"{n}.compute": getattr(fl, n).compute for n in R.REF}
    ctx.excuse = lambda mechanism, observed, note: excusable(observed)
    with Reach(funcs) as reach, Probe() as probe:
        mon = NormMonitor(ctx, fl)
        mon.install(probe)
        mon.keeper = ResultKeeper(ctx)
        names = list(R.REF)
        # 1. exhaustive grid: pairs through a broadcast call, a 1-D call per row, scalar calls on the diagonal
        for i, rnd in ctx.cases("grid", len(names)):
            with ctx.guarded():
                name = names[i]
                norm = getattr(fl, name)()
                norm.compute(grid[:, None], grid[None, :])
                for a in grid[:: max(1, len(grid) // 8)]:
                    norm.compute(float(a), grid)
                    norm.compute(grid, float(a))
                for a in grid:
                    norm.compute(float(a), float(1.0 - a))
                    norm.compute(np.float64(a), np.array(a))
                norm.compute([0.25, 0.5, 1.0], [0.75, 0.5, 0.0])  # plain lists
                for ia in (0, 1):
                    for ib in (0, 1):
                        norm.compute(ia, ib)  # Python ints
                norm.compute(grid[:1], grid[-1:])  # batches of one
                norm.compute(grid.astype(np.float32)[:5], 0.5)
                # associativity on the full grid of triples, through monitored calls
                if name != "NormalizedSum":
                    A, B, C = grid[:, None, None], grid[None, :, None], grid[None, None, :]
                    left = norm.compute(norm.compute(A, B), C)
                    right = norm.compute(A, norm.compute(B, C))
                    tol = 0.0 if name in R.EXACT else 1e-12
                    bad = np.argwhere(~(np.abs(left - right) <= tol))
                    ctx.hit(f"law:{name}:associativity", left.size)
                    ctx.evaluated(left.size)
                    for ia, ib, ic in bad[:3]:
                        ctx.violation(f"{name}: not associative", {"norm": name, "a": grid[ia], "b": grid[ib], "c": grid[ic]}, float(right[ia, ib, ic]), float(left[ia, ib, ic]))
                ctx.sample("grid", {"norm": name, "grid": f"k/2^{m}, {len(grid)}^2 pairs, {len(grid)}^3 triples", "example": {"a": 0.25, "b": 0.75, "result": float(norm.compute(0.25, 0.75))}})
        # 1b. every pair of extreme magnitudes (products and sums that underflow, the neighbours of 0, 1/2 and 1, negative zero)
        extremes = np.array([0.0, -0.0, 5e-324, 1e-310, 1e-300, 1e-200, 1e-160, 2.0**-537, 1e-17, 2.0**-53, 0.5 - 2.0**-54, 0.5, 0.5 + 2.0**-53, 1 - 2.0**-53, 1.0])
        for i, rnd in ctx.cases("extremes", len(names)):
            with ctx.guarded():
                norm = getattr(fl, names[i])()
                norm.compute(extremes[:, None], extremes[None, :])
                for a in extremes:
                    for b in extremes[::3]:
                        norm.compute(float(a), float(b))
                ctx.hit("workload:pairs of extreme magnitudes")
        # 1c. large batches: sizes on both sides of every power of two from 2^12 to 2^17 (block-wise fast paths), 1-D and as a
        # transposed matrix; a sample of the elements is judged, always including both ends
        sizes = [2**k + d for k in range(12, 18) for d in (0, 1)] + [100_000]
        for i, rnd in ctx.cases("sizes", len(names)):
            with ctx.guarded():
                norm = getattr(fl, names[i])()
                gen = np.random.default_rng(ctx.seed * 1000 + i)
                for n in sizes:
                    a, b = gen.random(n), gen.random(n)
                    a[::97], b[::89] = 0.0, 1.0
                    norm.compute(a, b)
                    if n % 2 == 0:
                        norm.compute(a.reshape(2, -1).T, b.reshape(2, -1).T)
                    ctx.hit("workload:large batch")
        # 2. random doubles, several operand forms
        nchunks = ctx.scale(8, 64)
        for i, rnd in ctx.cases("random", len(names) * nchunks):
            with ctx.guarded():
                name = names[i % len(names)]
                fm = fl.settings.factory_manager
                norm = getattr(fl, name)() if i % 3 else (fm.tnorm if name in R.TNORMS else fm.snorm).construct(name)
                k = max(8, nrand // nchunks)
                a = specials(rnd, k)
                b = specials(rnd, k)
                # complementary pairs: a + b == 1 up to an ulp
                for j in range(0, k, 7):
                    b[j] = min(1.0, max(0.0, rnd.choice([1.0 - a[j], math.nextafter(1.0 - a[j], 0.0), math.nextafter(1.0 - a[j], 1.0)])))
                form = rnd.choice(["1d", "2d", "col-row", "scalar-loop"])
                if form == "1d":
                    norm.compute(np.array(a), np.array(b))
                    norm.compute(np.array(b), np.array(a))
                elif form == "2d":
                    kk = (k // 4) * 4
                    norm.compute(np.array(a[:kk]).reshape(4, -1), np.array(b[:kk]).reshape(4, -1))
                    norm.compute(np.array(b[:kk]).reshape(4, -1), np.array(a[:kk]).reshape(4, -1))
                elif form == "col-row":
                    q = min(k, 40)
                    norm.compute(np.array(a[:q])[:, None], np.array(b[:q])[None, :])
                    norm.compute(np.array(b[:q])[:, None], np.array(a[:q])[None, :])
                else:
                    for x, y in zip(a[:200], b[:200]):
                        norm.compute(x, y)
                        norm.compute(y, x)
                # the same operands in other memory layouts and element types
                if (i // len(names)) % 2 == 0:
                    A2, B2 = np.array(a[:24]).reshape(4, 6), np.array(b[:24]).reshape(4, 6)
                    ro = np.array(b[:6])
                    ro.flags.writeable = False
                    for what, (x, y) in {
                        "transposed": (A2.T, B2.T), "fortran order with C order": (np.asfortranarray(A2), B2), "strided": (np.array(a)[:24:3], np.array(b)[:24:3]),
                        "reversed": (np.array(a[:16])[::-1], np.array(b[:16])[::-1]), "read-only row broadcast over a batch": (A2, np.broadcast_to(ro, (4, 6))),
                        "scalar with transposed": (float(a[0]), B2.T), "0-d with batch": (np.array(a[0]), np.array(b[:8])), "batch with 0-d": (np.array(a[:8]), np.array(b[0])),
                        "array of one with batch": (np.array(a[:1]), np.array(b[:8])), "list with float": (list(a[:5]), float(b[0])),
                        "float32 batches": (np.array([0.25, 0.5, 0.75, 1.0], dtype=np.float32), np.array([0.5, 0.5, 0.25, 0.0], dtype=np.float32)),
                        "boolean flags": (np.array([True, False, True]), np.array([True, True, False])),
                    }.items():  # fmt: skip
                        norm.compute(x, y)
                        norm.compute(y, x)
                        ctx.hit("operand form:" + what)
                # monotonicity / identity / annihilator material: fixed b, sorted a
                bb = rnd.choice(b)
                norm.compute(np.array(sorted(a)), bb)
                norm.compute(np.array(a), 1.0)
                norm.compute(np.array(a), 0.0)
                # associativity on random triples (tolerance 1e-9: real-arithmetic law, floating-point operands)
                if name != "NormalizedSum":
                    A, B, C = np.array(a[:64]), np.array(b[:64]), np.array(specials(rnd, 64))
                    left = norm.compute(norm.compute(A, B), C)
                    right = norm.compute(A, norm.compute(B, C))
                    tol = 1e-9
                    diff = np.abs(left - right)
                    ctx.hit(f"law:{name}:associativity-random", A.size)
                    for j in np.argwhere(~(diff <= tol)).ravel()[:3]:
                        piece_near = any(R.branch(name, u, v)[1] <= 1e-9 for u, v in [(A[j], B[j]), (B[j], C[j]), (float(norm.compute(A[j], B[j])), C[j]), (A[j], float(norm.compute(B[j], C[j])))])
                        if piece_near:
                            ctx.hit("ambiguous:associativity next to a branch point")
                        else:
                            ctx.violation(f"{name}: not associative", {"norm": name, "a": A[j], "b": B[j], "c": C[j]}, float(right[j]), float(left[j]))
                if i < len(names):
                    ctx.sample("random", {"norm": name, "form": form, "a": a[:4], "b": b[:4]})
        # one norm instance, the same operand arrays refilled in place between calls (stale results, aliasing)
        for i, rnd in ctx.cases("reuse", ctx.scale(32, 640)):
            with ctx.guarded():
                name = names[i % len(names)]
                norm = getattr(fl, name)()
                a, b = np.array(specials(rnd, 16)), np.array(specials(rnd, 16))
                for _ in range(4):
                    r1 = norm.compute(a, b)
                    keep = np.array(r1, copy=True)
                    a[:] = specials(rnd, 16)
                    if rnd.random() < 0.5:
                        b[:] = specials(rnd, 16)
                    ctx.hit("event:operands refilled in place")
                    if not np.array_equal(np.asarray(r1), keep, equal_nan=True):
                        ctx.violation(f"{name}: a returned result changes when an operand array is later modified (aliases its operand)", {"norm": name}, keep, r1)
                norm.compute(a, b)
                # a batch combined with a single value, in particular the identity and the annihilator (where the result equals an
                # operand in value): the result is still a new array, whatever is done to the operand afterwards
                for single in (1.0, 0.0, np.float64(1.0), np.array(1.0), np.array(0.0), 0.5, 1, 0):
                    for batch_first in (False, True):
                        a[:] = specials(rnd, 16)
                        r1 = norm.compute(a, single) if batch_first else norm.compute(single, a)
                        keep = np.array(r1, copy=True)
                        a[:] = specials(rnd, 16)
                        ctx.hit("event:batch combined with a single value, then refilled")
                        if not np.array_equal(np.asarray(r1), keep, equal_nan=True):
                            ctx.violation(f"{name}: a returned result changes when an operand array is later modified (aliases its operand)", {"norm": name, "single": single, "batch_first": batch_first}, keep, r1)
        # batches without elements (an empty selection of a dataset): the result is the empty batch of the broadcast shape; and
        # values made with the library's own scalar() belong to whoever made them: updating one in place changes nothing else
        for i, rnd in ctx.cases("empty batches and scalar()", len(names)):
            with ctx.guarded():
                norm = getattr(fl, names[i])()
                for a, b in ((np.empty(0), np.empty(0)), (np.empty((0, 3)), np.array([0.25, 0.5, 1.0])), (0.75, np.empty(0)), (np.empty((2, 0)), 0.5), ([], [])):
                    try:
                        norm.compute(a, b)
                    except Exception:
                        pass  # judged by the monitor
                ctx.hit("workload:zero-size batches")
                for v in (0.0, 1.0, 0.5, 0.25):
                    z = fl.scalar(v)
                    if isinstance(z, np.ndarray) and z.flags.writeable:
                        z += 0.125  # the caller's own running value
                    w = fl.to_float(v)
                    w = w + 0.125
                    for other in (np.array([0.0, 0.25, 1.0]), 0.75, 1.0, 0.0):
                        norm.compute(v, other)
                        norm.compute(other, v)
                ctx.hit("event:a value made with scalar() updated in place by its owner")
        # the library under another floating-point type: the formulas, the range and the special pairs hold at that precision
        for i, rnd in ctx.cases("float-types", len(names) * ctx.scale(2, 20)):
            with ctx.guarded():
                name = names[i % len(names)]
                for ftype in ("float32", "float16"):
                    with hostile(fl, ftype, ctx):
                        norm = getattr(fl, name)()
                        a, b = np.array(specials(rnd, 40)), np.array(specials(rnd, 40))
                        a[:6], b[:6] = [0.0, 0.0, 1.0, 1.0, 0.5, 0.25], [0.0, 1.0, 0.0, 1.0, 0.5, 0.75]
                        norm.compute(a, b)
                        norm.compute(a[:12].reshape(3, 4), b[:12].reshape(3, 4))
                        norm.compute(a[:, None][:8], b[None, :8])
                        for x, y in zip(a[:8], b[:8]):
                            norm.compute(float(x), float(y))
                        norm.compute(np.zeros(3), np.zeros(3))
                        norm.compute(np.ones(3), np.ones(3))
                        norm.compute(0.0, np.zeros(2))
        # the process in another state: warnings are errors, the library logs at DEBUG, other NumPy print options
        for i, rnd in ctx.cases("environments", len(names) * len(ENVIRONMENTS)):
            with ctx.guarded():
                name, envname = names[i % len(names)], ENVIRONMENTS[i // len(names)]
                a, b = np.array(specials(rnd, 40) + [0.0, 0.0, 1.0, 1.0]), np.array(specials(rnd, 40) + [0.0, 1.0, 0.0, 1.0])
                with hostile(fl, envname, ctx):
                    norm = getattr(fl, name)()
                    norm.compute(a, b)
                    norm.compute(a[:, None][:6], b[None, :6])
                    norm.compute(extremes[:, None], extremes[None, :])
                    for x, y in zip(a[-8:], b[-8:]):
                        norm.compute(float(x), float(y))
        mon.check_laws()
        probe.report(ctx)
        reach.report(ctx)
    ctx.exhaustive = True
    ctx.extra["exhaustive_space"] = f"all pairs and triples of the dyadic grid k/2^{m} per norm (plus non-exhaustive random doubles)"
    ctx.require("workload:zero-size batches", "event:a value made with scalar() updated in place by its owner")
    ctx.require("float_type:float32", "float_type:float16", "event:batch combined with a single value, then refilled", *[f"environment:{e}" for e in ENVIRONMENTS])
    ctx.require("workload:large batch", "law:results of earlier calls left alone", "workload:pairs of extreme magnitudes", "operand form:transposed", "operand form:0-d with batch", "operand form:read-only row broadcast over a batch")
    for name in R.REF:
        ctx.require(f"hook:{name}.compute")
    if ctx.nshards == 1 or True:
        # pieces named by the property's definitions must have been seen (only for norms this shard handled)
        handled = {names[i % len(names)] for i in range(len(names)) if i % ctx.nshards == ctx.shard}
        for name in handled:
            for piece in {"NilpotentMinimum": ["sum>1", "sum<1", "sum==1"], "NilpotentMaximum": ["sum>1", "sum<1", "sum==1"], "DrasticProduct": ["max==1", "max<1"], "DrasticSum": ["min==0", "min>0"], "HamacherProduct": ["a+b==0", "a+b>0"], "HamacherSum": ["ab==1", "ab<1"]}.get(name, []):
                ctx.require(f"piece:{name}:{piece}")


def passive(ctx, fl, probe):
    """attach this property's always-on monitor to a foreign workload (the repository's test-suite, see vf/pytest_plugin.py)"""
    mon = NormMonitor(ctx, fl)
    mon.install(probe)
    return mon.check_laws
