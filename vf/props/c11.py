"""C11 — Tsukamoto values invert the monotonic membership functions.

Deciding step: a monitor on `tsukamoto` of every term class judges each observed element y in (0, height): the
value must be finite, agree with the closed-form inverse, and map back to y through the term's own (monitored)
membership; an offline pass over the recorded (term, y) -> z table checks that z is monotone in y in the term's
direction.  Terms that are not monotonic must refuse."""
from __future__ import annotations

import math

import numpy as np

from ..core import import_library
from ..gen import terms as G
from ..probe import Probe, Reach, ResultKeeper, check_unmutated, snapshot_arrays
from ..ref import terms as R

WORKERS = {"quick": 1, "thorough": 16}


def increasing(kind, p):
    if kind in ("Ramp", "Arc"):
        return p[0] < p[1]
    if kind == "SShape":
        return True
    if kind == "ZShape":
        return False
    if kind == "Concave":
        return p[0] <= p[1]
    if kind == "Sigmoid":
        return p[1] > 0
    raise KeyError(kind)


class TsukamotoMonitor:
    def __init__(self, ctx, fl, table=True):
        self.ctx, self.fl = ctx, fl
        self.table = {} if table else None
        self.orig_tsukamoto, self.orig_membership = {}, {}
        self.sel = __import__("random").Random(f"c11sel:{ctx.seed}:{ctx.shard}")

    def install(self, probe):
        fl = self.fl
        for kind in R.MONOTONIC:
            cls = getattr(fl, kind)
            self.orig_tsukamoto[kind] = probe.wrap(cls, "tsukamoto", before=snapshot_arrays, after=self._after)
            self.orig_membership[kind] = cls.__dict__["membership"]
        probe.wrap(fl.Term, "tsukamoto", after=self._after_default, label="Term.tsukamoto(default)")

    def _after_default(self, args, kwargs, token, result, exc):
        term = args[0]
        self.ctx.evaluated()
        self.ctx.hit(f"refused:{type(term).__name__}")
        if exc is None:
            self.ctx.violation(f"{type(term).__name__}: a term that is not monotonic accepted tsukamoto", {"term": type(term).__name__}, "an error", result)
        elif term.is_monotonic():
            self.ctx.violation(f"{type(term).__name__}: declares itself monotonic but refuses tsukamoto", {"term": type(term).__name__}, "a value", repr(exc))

    def _after(self, args, kwargs, token, result, exc):
        ctx = self.ctx
        term, y = args[0], check_unmutated(ctx, f"{type(args[0]).__name__}.tsukamoto", args, token)
        if getattr(self, "keeper", None) is not None and exc is None:
            self.keeper.after_call(f"{type(args[0]).__name__}.tsukamoto", result, args[1:2])
        got = R.params_of(term)
        if got is None or not R.valid(*got):
            ctx.hit("out_of_domain:invalid or default parameters")
            return
        kind, p, h = got
        if kind in ("SShape", "ZShape") and not p[0] < p[1]:
            ctx.hit("out_of_domain:vertical edge (a step function has no inverse)")
            return
        case = {"term": kind, "params": list(p), "height": h}
        try:
            Y = np.asarray(y, dtype=float)
        except Exception:
            ctx.hit("out_of_domain:non-numeric y")
            return
        if exc is not None:
            ctx.violation(f"{kind}: tsukamoto raises {type(exc).__name__}", dict(case, y=Y), "a value", repr(exc))
            return
        if not term.is_monotonic():
            ctx.violation(f"{kind}: has a tsukamoto value but does not declare itself monotonic", case, True, False)
        Z = np.asarray(result)
        if Z.shape != Y.shape:
            ctx.violation(f"{kind}: tsukamoto result shape differs from the shape of y", dict(case, y_shape=Y.shape), Y.shape, Z.shape)
            return
        ys, zs = Y.ravel(), Z.astype(float).ravel()
        ctx.hit(f"calls:{kind}:{'scalar' if Y.ndim == 0 else f'{Y.ndim}d'}")
        idx = range(ys.size) if ys.size <= 128 else sorted(set(self.sel.sample(range(ys.size), 96)) | set(range(8)) | set(range(ys.size - 8, ys.size)))
        span = abs(p[1] - p[0]) if kind != "Sigmoid" else 1.0 / abs(p[1])
        tab = None
        if self.table is not None and (len(self.table) < 6000 or (kind, p, h) in self.table):
            tab = self.table.setdefault((kind, p, h), {})
        membership = self.orig_membership[kind]
        for i in idx:
            v, z = float(ys[i]), float(zs[i])
            if not (0.0 < v < h):
                ctx.hit("out_of_domain:y outside (0, height)")
                continue
            ctx.evaluated()
            ctx.hit(f"piece:{kind}:{'y<h/2' if v < h / 2 else 'y==h/2' if v == h / 2 else 'y>h/2'}:{'incr' if increasing(kind, p) else 'decr'}")
            try:
                e = R.tsukamoto(kind, p, h, v)
            except (OverflowError, ZeroDivisionError, ValueError):
                e = math.inf
            if not math.isfinite(e) or abs(e) >= 1e300:
                ctx.hit("skipped:inverse beyond 1e300")
                continue
            if not math.isfinite(z):
                ctx.violation(f"{kind}: tsukamoto value is not finite", dict(case, y=v), e, z)
                continue
            xtol = 1e-9 * max(span, abs(e) * 1e-3, 1e-300)
            if kind == "Arc":
                # the arc is flat at its top: dz/dy = r (y/h^2) / sqrt(1-(y/h)^2) grows without bound as y -> h, and the
                # library's radicand r^2 - (y r/h)^2 is rounded to ~2u r^2   (conditioning-aware tolerance)
                q = v / h
                xtol += 8 * 2.0**-53 * span * q / math.sqrt(max(1.0 - q * q, 2.0**-53))
            if abs(z - e) > xtol:
                ctx.violation(f"{kind}: tsukamoto value differs from the inverse of the membership function", dict(case, y=v), e, z)
                continue
            back = float(np.asarray(membership(term, z)))
            tol = 1e-9 * h
            if kind == "Arc":
                tol += R.arc(z, p, h)[2] + 1e-7 * h * 0  # conditioning of sqrt next to the zero end
                tol = max(tol, 1e-7 * h) if v < 1e-3 * h else tol
            if not abs(back - v) <= tol:
                ctx.violation(f"{kind}: membership(tsukamoto(y)) != y", dict(case, y=v, z=z), v, back)
                continue
            ctx.nontrivial(kind, p, h, v)
            if tab is not None and len(tab) < 300:
                tab[v] = z
        if Y.ndim > 0 and ys.size:
            for i in self.sel.sample(list(idx), min(4, len(list(idx)))):
                one = float(np.asarray(self.orig_tsukamoto[kind](term, float(ys[i]))))
                ctx.hit("law:array==elementwise")
                if not (one == float(zs[i]) or (math.isnan(one) and math.isnan(float(zs[i])))):
                    if abs(one - float(zs[i])) <= 4e-16 * max(1.0, abs(one)):
                        ctx.hit("ambiguous:array vs scalar differ by <=2ulp")
                    else:
                        ctx.violation(f"{kind}: array tsukamoto differs from the element alone", dict(case, y=float(ys[i])), one, float(zs[i]))

    def check_monotone(self):
        ctx = self.ctx
        for (kind, p, h), tab in self.table.items():
            pts = sorted(tab.items())
            if len(pts) < 3:
                continue
            inc = increasing(kind, p)
            span = abs(p[1] - p[0]) if kind != "Sigmoid" else 1.0 / abs(p[1])
            ctx.hit(f"law:monotone:{kind}", len(pts) - 1)
            ctx.evaluated(len(pts) - 1)
            for (y0, z0), (y1, z1) in zip(pts, pts[1:]):
                slack = 1e-12 * max(span, abs(z0), abs(z1))
                if (z1 < z0 - slack) if inc else (z1 > z0 + slack):
                    ctx.violation(f"{kind}: tsukamoto is not monotone in y in the term's direction", {"term": kind, "params": list(p), "height": h, "y": [y0, y1]}, "increasing" if inc else "decreasing", [z0, z1])
                    break


def y_values(rnd, h, n=14):
    ys = [h / 2, math.nextafter(h / 2, 0), math.nextafter(h / 2, 1), 1e-9 * h, 1e-12 * h, 1e-300, math.nextafter(h, 0), h * (1 - 1e-9), h * 0.25, h * 0.75]
    ys += [rnd.uniform(0, h) for _ in range(n)]
    ys += [h * 10.0 ** rnd.uniform(-15, -1) for _ in range(3)]
    return [y for y in ys if 0.0 < y < h]


def run(ctx):
    fl = import_library()
    nparam = ctx.scale(400, 20000)
    ctx.rule = (
        f"every tsukamoto call observed. Workload: Arc, Concave, Ramp, Sigmoid, SShape, ZShape x both directions x heights in (0,1] x {nparam} "
        "parameterisations x ~27 activation degrees y in (0,h): random, h/2 and its neighbours, next to 0 (1e-9h, 1e-12h, 1e-300) and next to "
        "h; float, 0-d, 1-D, 2-D; the 14 other shape terms, Constant, Linear and Function must refuse. distinct_nontrivial = distinct "
        "(kind, parameters, height, y) judged with y in (0,h)"
    )
    ctx.assumptions += [
        "x-space tolerance 1e-9 of the term's span; round trip 1e-9*h (Arc: conditioning-aware, 1e-7*h below y = 1e-3 h)",
        "finiteness is only required where the real-valued inverse is below 1e300 in magnitude (Concave/Sigmoid at y = 1e-300 are counted, not judged)",
        "the round trip uses the library's own membership, itself judged by C03",
    ]
    funcs = {f"{k}.tsukamoto": getattr(fl, k).tsukamoto for k in R.MONOTONIC}
    funcs["Term.tsukamoto"] = fl.Term.tsukamoto
    with Reach(funcs) as reach, Probe() as probe:
        mon = TsukamotoMonitor(ctx, fl)
        mon.install(probe)
        mon.keeper = ResultKeeper(ctx)
        kinds = list(R.MONOTONIC)
        for i, rnd in ctx.cases("terms", len(kinds) * nparam):
            kind = kinds[i % len(kinds)]
            lo = G.snap(rnd.uniform(-10, 5), 1)
            hi = G.snap(lo + rnd.choice([1.0, 2.5, 10.0, 0.5, 100.0]), 1)
            spec = G.shape_term(rnd, "t", lo, hi, kind=kind, d=rnd.choice([1, 3, 6]), degenerate=False, free_height=True)
            term = G.build_term(fl, spec, route=rnd.choice(["constructor", "factory"]))
            ys = y_values(rnd, spec["height"])
            form = i // len(kinds) % 3
            try:
                if form == 0:
                    for y in ys:
                        term.tsukamoto(y)
                elif form == 1:
                    term.tsukamoto(np.array(ys))
                    term.tsukamoto(np.array(ys[0]))
                else:
                    k = (len(ys) // 2) * 2
                    term.tsukamoto(np.array(ys[:k]).reshape(2, -1))
                    term.tsukamoto(np.float64(ys[-1]))
                    # batches of one, columns, rows and other memory layouts: one result per element, in the same shape
                    A = np.array(ys[:k])
                    for what, B in {"array of one": A[:1], "1x1": A[:1].reshape(1, 1), "column": A.reshape(-1, 1), "row": A.reshape(1, -1), "transposed": A.reshape(2, -1).T, "strided": A[::2], "reversed": A[::-1], "list": list(ys[:3])}.items():
                        term.tsukamoto(B)
                        ctx.hit("y form:" + what)
                    # degrees read from a single-precision data set (they are what they are, the inverse is computed in double
                    # precision like everything else); a batch without elements
                    mid = [y for y in ys if 1e-3 * spec["height"] < y < 0.999 * spec["height"]]
                    for what, B in {"float32 batch": np.array(mid, dtype=np.float32), "float16 batch": np.array([y for y in mid if y > 0.01], dtype=np.float16), "empty batch": np.empty(0), "empty selection": A[A < 0], "empty 2-D": np.empty((0, 3))}.items():
                        term.tsukamoto(B)
                        ctx.hit("y form:" + what)
            except Exception:
                ctx.hit("event:tsukamoto raised in the workload (judged by the monitor)")
            if i < 12 and i % 2 == 0:
                ctx.sample("term", {"spec": spec, "y": ys[:6], "tsukamoto": term.tsukamoto(np.array(ys[:6]))})
        # large batches: sizes on both sides of every power of two from 2^12 to 2^17 (block-wise fast paths), 1-D, as a C-ordered
        # matrix and as a transposed one
        for i, rnd in ctx.cases("sizes", len(kinds)):
            kind = kinds[i]
            spec = G.shape_term(rnd, "t", -2.0, 3.0, kind=kind, d=3, degenerate=False)
            term = G.build_term(fl, spec)
            gen = np.random.default_rng(ctx.seed * 100 + i)
            for n in [2**k + dd for k in range(12, 18) for dd in (0, 1)] + [100_000]:
                y = gen.random(n) * spec["height"]
                term.tsukamoto(y)
                if n % 4 == 0:
                    term.tsukamoto(y.reshape(4, -1))
                    term.tsukamoto(y.reshape(4, -1).T)
                    term.tsukamoto(np.asfortranarray(y.reshape(-1, 4)))
            ctx.hit("workload:large batch")
        # the same term and array object used again after refilling the array / changing the parameters (stale state, aliasing)
        for i, rnd in ctx.cases("reuse", len(kinds) * ctx.scale(10, 200)):
            kind = kinds[i % len(kinds)]
            spec = G.shape_term(rnd, "t", -2.0, 3.0, kind=kind, d=3, degenerate=False)
            term = G.build_term(fl, spec)
            h = spec["height"]
            buf = np.array(y_values(rnd, h)[:12])
            for _ in range(3):
                try:
                    r1 = term.tsukamoto(buf)
                    keep = np.array(r1, copy=True)
                    buf[:] = [rnd.uniform(0, term.height) * 0.999 + 1e-12 for _ in range(buf.size)]
                    ctx.hit("event:buffer refilled in place")
                    if not np.array_equal(np.asarray(r1), keep, equal_nan=True):
                        ctx.violation(f"{kind}: a returned tsukamoto result changes when the argument array is later modified", {"term": kind}, keep, r1)
                    term.tsukamoto(buf)
                    other = G.shape_term(rnd, "t", -2.0, 3.0, kind=kind, d=3, degenerate=False)
                    for attr, v in zip(R.ATTRS[kind], other["params"]):
                        setattr(term, attr, v)
                    term.height = other["height"]
                    buf[:] = [rnd.uniform(0, term.height) * 0.999 + 1e-12 for _ in range(buf.size)]
                    ctx.hit("event:parameters changed between calls")
                    term.tsukamoto(buf)
                except Exception:
                    pass
        # near twins: terms of one class and one name whose parameters agree to the third decimal (a fine re-tuning, the `wide` of
        # two variables on a millimetre scale) - each has its own inverse
        for i, rnd in ctx.cases("near twins", len(kinds) * ctx.scale(6, 120)):
            kind = kinds[i % len(kinds)]
            spec = G.shape_term(rnd, "wide", -2.0, 3.0, kind=kind, d=3, degenerate=False)
            first = G.build_term(fl, spec)
            ys = np.array(y_values(rnd, spec["height"])[:10])
            try:
                first.tsukamoto(ys)
                first.tsukamoto(float(ys[0]))
                for step in (1e-4, -3e-4, 4e-4):
                    twin = dict(spec, params=[p + step * (k + 1) for k, p in enumerate(spec["params"])])
                    second = G.build_term(fl, twin)
                    second.tsukamoto(ys * 0.999)
                    second.tsukamoto(float(ys[1]) * 0.999)
                    # ... and the same object re-tuned in place by less than its printed text shows
                    for attr, v in zip(R.ATTRS[kind], twin["params"]):
                        setattr(first, attr, v)
                    first.tsukamoto(ys * 0.999)
                ctx.hit("workload:terms that agree to the third decimal")
            except Exception:
                ctx.hit("event:tsukamoto raised in the workload (judged by the monitor)")
        others = [k for k in R.REF if k not in R.MONOTONIC]
        for i, rnd in ctx.cases("refusal", len(others) + 6):
            if i >= len(others) + 3:
                # terms that wrap other terms do not declare themselves monotonic, whatever they wrap
                inner = G.build_term(fl, G.shape_term(rnd, "t", 0.0, 1.0, kind=rnd.choice(G.MONOTONIC), degenerate=False))
                act = fl.Activated(inner, rnd.choice([1.0, 0.5]), rnd.choice([None, fl.Minimum(), fl.AlgebraicProduct()]))
                term = [act, fl.Aggregated("agg", 0.0, 1.0, fl.Maximum(), [act]), fl.Aggregated("empty", 0.0, 1.0, fl.Maximum())][i - len(others) - 3]
            elif i < len(others):
                term = G.build_term(fl, G.shape_term(rnd, "t", 0.0, 1.0, kind=others[i]))
            elif i == len(others):
                term = fl.Constant("c", 0.5)
            elif i == len(others) + 1:
                term = fl.Linear("l", [1.0, 0.5])
            else:
                term = fl.Function("f", "x * 2")
            for y in (0.5, np.array([0.25, 0.75])):
                ctx.evaluated()
                try:
                    z = term.tsukamoto(y)
                    if not term.is_monotonic():
                        ctx.violation(f"{type(term).__name__}: a term that does not declare itself monotonic does not refuse tsukamoto", {"term": str(term)}, "RuntimeError", z)
                except RuntimeError:
                    ctx.hit(f"refused:{type(term).__name__}")
                except Exception as ex:
                    ctx.violation(f"{type(term).__name__}: refuses tsukamoto with {type(ex).__name__} instead of the documented error", {"term": type(term).__name__}, "RuntimeError", repr(ex))
        mon.check_monotone()
        probe.report(ctx)
        reach.report(ctx)
    for k in R.MONOTONIC:
        ctx.require(f"hook:{k}.tsukamoto", f"law:monotone:{k}", "y form:column", "y form:array of one", "refused:Activated", "refused:Aggregated", "workload:large batch", "law:results of earlier calls left alone")
    for k in ("SShape", "ZShape"):
        d = "incr" if k == "SShape" else "decr"
        ctx.require(f"piece:{k}:y<h/2:{d}", f"piece:{k}:y==h/2:{d}", f"piece:{k}:y>h/2:{d}")
    for k in ("Ramp", "Arc", "Concave", "Sigmoid"):
        ctx.require(f"piece:{k}:y<h/2:incr", f"piece:{k}:y<h/2:decr")
    ctx.require("workload:terms that agree to the third decimal", "y form:float32 batch", "y form:empty batch")
    ctx.require("refused:Triangle", "refused:Constant", "refused:Function", "refused:Linear", "hook:Term.tsukamoto(default)")


def passive(ctx, fl, probe):
    """attach this property's always-on monitor to a foreign workload (the repository's test-suite, see vf/pytest_plugin.py)"""
    mon = TsukamotoMonitor(ctx, fl)
    mon.install(probe)
    return mon.check_monotone
