"""pytest plugin: run the repository's own test-suite with one property's always-on monitors attached (passive workload).
Enabled by `-p vf.pytest_plugin` with VF_PASSIVE_PROP=<Cnn> and VF_PASSIVE_OUT=<file> in the environment."""
from __future__ import annotations

import importlib
import json
import os

_state = {}


def pytest_configure(config):
    prop = os.environ.get("VF_PASSIVE_PROP")
    out = os.environ.get("VF_PASSIVE_OUT")
    if not prop or not out:
        return
    from .core import Ctx, import_library
    from .probe import Probe

    fl = import_library()
    module = importlib.import_module(f"vf.props.{prop.lower()}")
    ctx = Ctx(prop, "thorough", int(os.environ.get("VERIF_SEED", "0")), 0, 1)
    ctx.current = ("passive:repository test-suite", 0)
    probe = Probe()
    finalize = module.passive(ctx, fl, probe)
    _state.update(ctx=ctx, probe=probe, finalize=finalize, out=out)


def pytest_runtest_logreport(report):
    if _state and report.when == "call":
        _state["ctx"].hit(f"passive:tests {report.outcome}")


def pytest_sessionfinish(session, exitstatus):
    if not _state:
        return
    ctx, probe = _state["ctx"], _state["probe"]
    try:
        if _state["finalize"]:
            _state["finalize"]()
    finally:
        probe.report(ctx)
        probe.remove()
    # counters of the passive run are kept apart from the directed workload's
    part = ctx.partial()
    part["counts"] = {f"passive:{k}" if not k.startswith(("passive:", "inconclusive:")) else k: v for k, v in part["counts"].items()}
    part["required"] = []
    part["rule"] = ""
    with open(_state["out"], "w") as f:
        json.dump(part, f)
