"""Seeded generator of engines as plain-data specs + build(spec) -> fresh, history-free Engine."""
from __future__ import annotations

import copy
import math

import numpy as np

from ..ref.norms import SNORMS, TNORMS
from ..ref.terms import ATTRS
from . import terms as G

inf, nan = math.inf, math.nan
HEDGES = ["extremely", "not", "seldom", "somewhat", "very"]
INTEGRAL = ["Bisector", "Centroid", "LargestOfMaximum", "MeanOfMaximum", "SmallestOfMaximum"]
RES = [1, 2, 3, 4, 5, 10, 37, 100, 1000]
PREC = {"or": 1, "and": 2}
FORMULAS = ["in0 * 2.000 + 1.000", "sin ( in0 ) / 2.000", "in0 * 0.500 - x", "in0 ^ 2.000", "max ( in0 , 0.500 )", "ge ( in0 , 0.000 ) * in0"]


# ---- antecedent / consequent trees -------------------------------------------------------------------------------------------


def gen_prop(rnd, var, max_hedges=3, allow_any=True):
    hs = [rnd.choice(HEDGES) for _ in range(rnd.choice([0, 0, 0, 1, 1, 2, max_hedges]))]
    if allow_any and rnd.random() < 0.08:
        return dict(var=var["name"], hedges=[h for h in hs if h != "not"] + ["any"], term=None)
    return dict(var=var["name"], hedges=hs, term=rnd.choice(var["terms"])["name"])


def gen_tree(rnd, variables, depth, max_hedges=3):
    if depth == 0 or rnd.random() < 0.3:
        return ("prop", gen_prop(rnd, rnd.choice(variables), max_hedges))
    return (rnd.choice(["and", "or"]), gen_tree(rnd, variables, depth - 1, max_hedges), gen_tree(rnd, variables, depth - 1, max_hedges))


def prop_text(p):
    return " ".join([p["var"], "is"] + p["hedges"] + ([p["term"]] if p["term"] else []))


def _par(rnd, s, tight):
    return f"({s})" if rnd.random() < tight else f"( {s} )"


def tree_text(rnd, t, parent=None, side=None, redundant=0.0, tight=0.0):
    """infix text with the minimal parentheses implied by precedence (and > or) and left associativity, plus
    redundant ones with probability `redundant`; `tight` = probability of no space next to a parenthesis"""
    if t[0] == "prop":
        s = prop_text(t[1])
        return _par(rnd, s, tight) if rnd.random() < redundant else s
    op, left, right = t
    s = f"{tree_text(rnd, left, op, 'L', redundant, tight)} {op} {tree_text(rnd, right, op, 'R', redundant, tight)}"
    need = parent is not None and (PREC[op] < PREC[parent] or (PREC[op] == PREC[parent] and side == "R"))
    return _par(rnd, s, tight) if (need or rnd.random() < redundant) else s


def tree_postfix(t):
    if t[0] == "prop":
        return prop_text(t[1])
    return f"{tree_postfix(t[1])} {tree_postfix(t[2])} {t[0]}"


def tree_depth(t):
    return 0 if t[0] == "prop" else 1 + max(tree_depth(t[1]), tree_depth(t[2]))


def weight_text(w, d):
    return f" with {w:.{d}f}" if w != 1.0 else ""


# ---- engines -------------------------------------------------------------------------------------------------------------------


NEAR_ONE = [0.9995, 1.0005, 0.99999, 0.999, 1.001, 0.3337, 0.0625, 0.9996]


def gen_weight(rnd, d, free=False):
    """free: the weight is set on the rule object (not only written in the text), so it need not be representable at d
    decimals nor keep away from 1 - used by the checks that do not round-trip through text"""
    if free and rnd.random() < 0.25:
        return rnd.choice(NEAR_ONE)
    w = G.snap(rnd.choice([1.0, 1.0, 1.0, 0.5, 0.25, 0.75, 0.0, rnd.uniform(0.01, 0.95), rnd.uniform(0.01, 0.95)]), d)
    return w if (w >= 0 and (w == 1.0 or abs(w - 1.0) > 0.0015)) else 1.0


def gen_range(rnd):
    lo = G.snap(rnd.uniform(-10, 5), 1)
    return lo, G.snap(lo + rnd.choice([1.0, 2.5, 10.0, 0.5]), 1)


def gen_engine(
    rnd,
    activations=("General",),
    allow_output_antecedent=True,
    d=3,
    kinds=("integral", "integral", "ts", "tsukamoto", "inverse"),
    flags=True,
    max_inputs=3,
    max_rules=6,
    max_depth=3,
    resolutions=RES,
    locks=True,
    descriptions=False,
    infinite=False,
    free_weights=False,
    share_defuzzifier=False,
    routes=False,
    reversed_bounds=False,
    broken_rules=False,
    shared_rules=False,
    big_blocks=False,
    odd_names=0.0,
):
    nin, nout, nrb = rnd.randint(1, max_inputs), rnd.randint(1, 2), rnd.randint(1, 2)
    off = (lambda p: rnd.random() < p) if flags else (lambda p: False)
    spec = dict(name=f"E{rnd.randrange(10**6)}", description=rnd.choice(["", "an engine: demo"]) if descriptions else "", inputs=[], outputs=[], blocks=[], decimals=d)
    for i in range(nin):
        lo, hi = gen_range(rnd)
        v = dict(name=f"in{i}", description=rnd.choice(["", f"input {i}"]) if descriptions else "", enabled=not off(0.1), minimum=lo, maximum=hi, lock_range=locks and rnd.random() < 0.3, terms=[])
        for j in range(rnd.randint(1, 4)):
            v["terms"].append(G.shape_term(rnd, f"a{i}{j}", lo, hi, d=d, reversed_bounds=reversed_bounds))
        spec["inputs"].append(v)
    for i in range(nout):
        lo, hi = gen_range(rnd)
        kind = rnd.choice(kinds)
        v = dict(
            name=f"out{i}", description="", enabled=not off(0.1), minimum=lo, maximum=hi, lock_range=locks and rnd.random() < 0.3,
            lock_previous=locks and rnd.random() < 0.3, default_value=rnd.choice([nan, nan, G.snap(rnd.uniform(lo, hi), d), G.snap(hi + 1.0, 1)]) if locks else nan,
            aggregation=rnd.choice(SNORMS + [None]), terms=[], kind=kind,
        )  # fmt: skip
        nt = rnd.randint(1, 4)
        if kind == "integral":
            v["aggregation"] = rnd.choice(SNORMS)
            v["defuzzifier"] = dict(cls=rnd.choice(INTEGRAL), resolution=rnd.choice(resolutions))
            for j in range(nt):
                v["terms"].append(G.shape_term(rnd, f"b{i}{j}", lo, hi, d=d, reversed_bounds=reversed_bounds))
        else:
            fixed = {"ts": "TakagiSugeno", "tsukamoto": "Tsukamoto", "inverse": "TakagiSugeno"}[kind]
            v["defuzzifier"] = dict(cls=rnd.choice(["WeightedAverage", "WeightedSum"]), type=rnd.choice(["Automatic", "Automatic", fixed]))
            for j in range(nt):
                name = f"b{i}{j}"
                if kind == "ts":
                    c = rnd.choice(["Constant", "Linear", "Function"])
                    if c == "Constant":
                        v["terms"].append(dict(cls="Constant", name=name, params=[G.snap(rnd.uniform(lo, hi), d)], height=1.0))
                    elif c == "Linear":
                        v["terms"].append(dict(cls="Linear", name=name, params=[G.snap(rnd.uniform(-2, 2), d) for _ in range(nin + rnd.choice([0, 1]))], height=1.0))
                    else:
                        v["terms"].append(dict(cls="Function", name=name, params=[], formula=rnd.choice(FORMULAS[:4]), height=1.0))
                elif kind == "tsukamoto":
                    v["terms"].append(G.shape_term(rnd, name, lo, hi, kinds=G.MONOTONIC, d=d))
                else:
                    v["terms"].append(G.shape_term(rnd, name, lo, hi, kinds=["Triangle", "Gaussian", "Bell", "Trapezoid"], d=d, degenerate=False))
        spec["outputs"].append(v)
    for b in range(nrb):
        act = rnd.choice(list(activations))
        rb = dict(
            name=f"rb{b}", description="", enabled=not off(0.1), conjunction=rnd.choice(TNORMS), disjunction=rnd.choice(SNORMS[:-1]),
            implication=rnd.choice(TNORMS), activation=gen_activation(rnd, act, max_rules, d), rules=[],
        )  # fmt: skip
        for r in range(rnd.randint(1, max_rules)):
            avars = list(spec["inputs"])
            if allow_output_antecedent and (b > 0 or r > 0) and rnd.random() < 0.2:
                avars = avars + list(spec["outputs"])
            tree = gen_tree(rnd, avars, rnd.randint(0, max_depth))
            concl = [gen_prop(rnd, o, max_hedges=2, allow_any=False) for o in rnd.sample(spec["outputs"], rnd.randint(1, nout))]
            w = gen_weight(rnd, d, free=free_weights)
            text = "if " + tree_text(rnd, tree, redundant=rnd.choice([0, 0, 0.3]), tight=rnd.choice([0, 0.5])) + " then " + " and ".join(prop_text(c) for c in concl) + weight_text(w, d)
            rb["rules"].append(dict(text=text, tree=tree, concl=concl, weight=w, enabled=not off(0.1)))
        if big_blocks and rnd.random() < big_blocks:
            # a long rule block: more than 32 / 64 contributions to an output variable in one step
            target = rnd.choice(spec["outputs"])
            for r in range(rnd.choice([34, 40, 66, 70])):
                tree = gen_tree(rnd, list(spec["inputs"]), rnd.randint(0, 1), max_hedges=1)
                concl = [gen_prop(rnd, target, max_hedges=1, allow_any=False)]
                w = gen_weight(rnd, d, free=free_weights)
                text = "if " + tree_text(rnd, tree) + " then " + prop_text(concl[0]) + weight_text(w, d)
                rb["rules"].append(dict(text=text, tree=tree, concl=concl, weight=w, enabled=True))
            spec["big"] = True
        if broken_rules and rnd.random() < 0.25:
            # a rule the engine cannot load: it starts like a good rule (antecedent and first conclusion are fine) and goes wrong
            # later; its load is rejected, it stays unloaded and takes no part in anything
            tree = gen_tree(rnd, list(spec["inputs"]), rnd.randint(0, 1))
            good = prop_text(gen_prop(rnd, rnd.choice(spec["outputs"]), max_hedges=1, allow_any=False))
            o = rnd.choice(spec["outputs"])
            tail = rnd.choice([" and nosuchvariable is x", f" and {o['name']} is nosuchterm", f" and {o['name']} is", f" and {o['name']} very", " and", f" and {spec['inputs'][0]['name']} is {spec['inputs'][0]['terms'][0]['name']}"])
            text = "if " + tree_text(rnd, tree) + " then " + good + tail
            rb["rules"].insert(rnd.randint(0, len(rb["rules"])), dict(text=text, tree=tree, concl=[], weight=1.0, enabled=True, broken=True))
        spec["blocks"].append(rb)
    if shared_rules and rnd.random() < 0.2:
        # one more rule block made of the very same Rule objects as the first one (a list of rules handed to two blocks),
        # with operators of its own; or a rule object that occurs twice in its block
        first = spec["blocks"][0]
        if rnd.random() < 0.7:
            spec["blocks"].append(dict(first, name="shared", conjunction=rnd.choice(TNORMS), disjunction=rnd.choice(SNORMS[:-1]), implication=rnd.choice(TNORMS), same_rules_as=0, rules=[dict(r) for r in first["rules"]]))
        elif first["rules"] and first["activation"] and first["activation"]["cls"] == "General":
            # (only under General: the other methods rank or normalise the rules of a block, and what a rule object that occurs
            # twice in such a block should get is not defined)
            k = rnd.randrange(len(first["rules"]))
            first["rules"].append(dict(first["rules"][k], same_rule_as=k))
    if share_defuzzifier and rnd.random() < 0.5:
        # one Automatic weighted defuzzifier object for all the weighted output variables (what Engine.configure does)
        spec["shared_defuzzifier"] = rnd.choice(["WeightedAverage", "WeightedSum"])
    if routes:
        spec["route"] = rnd.choice(ROUTES)
        if spec["route"] in ("fll", "python", "rule-create-with-engine") and any(r.get("broken") for rb in spec["blocks"] for r in rb["rules"]):
            spec["route"] = "constructors"  # the text forms and Rule.create(text, engine) refuse the rule outright
        if spec["route"] in ("fll", "python", "copy", "deepcopy", "copy-as-is", "deepcopy-as-is") and any("same_rules_as" in rb or any("same_rule_as" in r for r in rb["rules"]) for rb in spec["blocks"]):
            spec["route"] = "constructors"  # sharing of rule objects does not survive the text forms (and copies are C13's business)
        if spec["route"] == "engine-configure" and not uniform(rnd, spec):
            spec["route"] = "constructors"
    if odd_names and rnd.random() < odd_names:
        unusual_names(rnd, spec)
    if descriptions:
        for part in spec["outputs"] + spec["blocks"]:
            part["description"] = rnd.choice(["", "", "some text: with a colon", "x = 1, y = 2 (approx.)"])
    if infinite:
        for v in spec["inputs"] + [o for o in spec["outputs"] if o["kind"] != "integral"]:
            if rnd.random() < 0.25 and not v["lock_range"]:
                if rnd.random() < 0.5:
                    v["minimum"] = -inf
                if rnd.random() < 0.6:
                    v["maximum"] = inf
    return spec


def gen_activation(rnd, cls, max_rules, d=3):
    if cls in ("First", "Last"):
        return dict(cls=cls, args=[rnd.randint(0, max_rules), G.snap(rnd.choice([0.0, 0.1, 0.25, 0.5, rnd.random()]), d)])
    if cls in ("Highest", "Lowest"):
        return dict(cls=cls, args=[rnd.randint(0, max_rules)])
    if cls == "Threshold":
        return dict(cls=cls, args=[rnd.choice(["<", "<=", "==", "!=", ">=", ">"]), G.snap(rnd.choice([0.0, 0.1, 0.25, 0.5, rnd.random()]), d)])
    return dict(cls=cls, args=[])


def build_defuzzifier(fl, dz):
    if dz is None:
        return None
    return getattr(fl, dz["cls"])(dz["resolution"]) if "resolution" in dz else getattr(fl, dz["cls"])(dz["type"])


ROUTES = ["constructors", "constructors", "factories", "fll", "python", "configure", "copy", "rule-create-with-engine", "engine-configure", "deepcopy", "copy-as-is", "deepcopy-as-is"]


def uniform(rnd, spec):
    """make the spec one that Engine.configure can produce: the same operators in every rule block, one aggregation and one
    defuzzifier (default parameters when given by name) for every output variable; returns False when the output variables
    cannot share a defuzzifier (integral and weighted ones mixed)"""
    families = {o["kind"] == "integral" for o in spec["outputs"]}
    if len(families) != 1:
        return False
    first = spec["blocks"][0]
    for rb in spec["blocks"][1:]:
        for k in ("conjunction", "disjunction", "implication", "activation"):
            rb[k] = first[k]
    by = {k: rnd.choice(["name", "name", "object"]) for k in ("conjunction", "disjunction", "implication", "aggregation", "defuzzifier", "activation")}
    if first["activation"] and first["activation"].get("args"):
        by["activation"] = "object"
    o0 = spec["outputs"][0]
    if o0["kind"] == "integral":
        if rnd.random() < 0.8:
            by["defuzzifier"] = "object"
        dz = dict(cls=o0["defuzzifier"]["cls"], resolution=o0["defuzzifier"]["resolution"] if by["defuzzifier"] == "object" else 1000)
    else:
        dz = dict(cls=o0["defuzzifier"]["cls"], type="Automatic")
    for o in spec["outputs"]:
        o["aggregation"] = o0["aggregation"]
        o["defuzzifier"] = dict(dz)
    spec["configure_by"] = by
    spec.pop("shared_defuzzifier", None)
    return True


class SpecMismatch(Exception):
    """a component does not hold what it was built from"""


def build(fl, spec, route=None):
    """route: how the engine comes into being (all must give the same engine): plain constructors; components from the
    factories + configure(parameters); through its FLL text; through its Python representation; operators given by name to
    Engine.configure; a deep copy; rules created with Rule.create(text, engine)"""
    route = route or spec.get("route") or "constructors"
    e = _build(fl, spec, route)
    if route == "fll":
        with fl.settings.context(decimals=17):
            e2 = fl.FllImporter().from_string(fl.FllExporter().to_string(e))
        e = _restore_flags(spec, e2)
    elif route == "python":
        e2 = eval(repr(e), {"fl": fl, "fuzzylite": fl})  # noqa: S307
        e = _restore_flags(spec, e2)
    elif route == "copy":
        e = e.copy()
        _quietly(e.restart, spec)
    elif route == "deepcopy":
        e = copy.deepcopy(e)
        _quietly(e.restart, spec)
    elif route in ("copy-as-is", "deepcopy-as-is"):
        # a copy of a freshly built engine, used as it comes (no restart, no reload): it is a fresh engine of its own, whatever
        # becomes of the engine it was copied from (which is given other input values, then dropped)
        source = e
        e = source.copy() if route == "copy-as-is" else copy.deepcopy(source)
        for k, v in enumerate(source.input_variables):
            v.value = 0.123 + k
    return e


def rejected_rules(spec):
    """(block index, rule index) of the rules of the spec that cannot be loaded"""
    return {(bi, ri) for bi, rb in enumerate(spec["blocks"]) for ri, r in enumerate(rb["rules"]) if r.get("broken")}


def _quietly(load, spec):
    """run a (re)loading step; the RuntimeError that reports the spec's unloadable rules is expected"""
    try:
        load()
    except RuntimeError:
        if not rejected_rules(spec):
            raise


def _set_weight(rule, w, d):
    """the weight the spec asks for is put on the rule object where the rule text cannot carry it exactly (it is written with
    d decimals; 1.0 stands for anything the library's tolerance takes for 1); a weight the text does carry is left as the
    parser read it, so that a misread weight stays visible to whoever compares with the spec"""
    if rule.weight != w and (abs(rule.weight - w) <= 0.5 * 10.0**-d * (1 + 1e-9) or (rule.weight == 1.0 and abs(w - 1.0) <= 1.5e-3)):
        rule.weight = w


def _restore_flags(spec, e):
    """what the text forms cannot carry (recorded findings): Rule.enabled; and weights that are not written with all digits"""
    for rb, rbs in zip(e.rule_blocks, spec["blocks"]):
        for r, rs in zip(rb.rules, rbs["rules"]):
            r.enabled = rs["enabled"]
            _set_weight(r, rs["weight"], spec["decimals"])
    return e


def _term(fl, t, e, route):
    if route == "factories" and t["cls"] not in ("Function", "Linear"):
        term = fl.settings.factory_manager.term.construct(t["cls"], name=t["name"])
        params = list(t["params"]) + ([t["height"]] if (t["cls"] != "Constant" and t.get("height", 1.0) != 1.0) else [])
        term.configure(" ".join(repr(float(p)) for p in params))
        return term
    return G.build_term(fl, t, e)


def _build(fl, spec, route):
    e = fl.Engine(spec["name"], spec["description"])
    shared = getattr(fl, spec["shared_defuzzifier"])() if spec.get("shared_defuzzifier") else None
    for v in spec["inputs"]:
        e.input_variables.append(fl.InputVariable(v["name"], v["description"], v["enabled"], v["minimum"], v["maximum"], v["lock_range"], [_term(fl, t, e, route) for t in v["terms"]]))
    for v in spec["outputs"]:
        e.output_variables.append(
            fl.OutputVariable(
                v["name"], v["description"], v["enabled"], v["minimum"], v["maximum"], v["lock_range"], v["lock_previous"], v["default_value"],
                getattr(fl, v["aggregation"])() if v["aggregation"] else None,
                shared if (shared is not None and v["defuzzifier"] and "type" in v["defuzzifier"]) else build_defuzzifier(fl, v["defuzzifier"]),
                [_term(fl, t, e, route) for t in v["terms"]],
            )
        )  # fmt: skip
    for rb in spec["blocks"]:
        rules = []
        for r in rb["rules"]:
            if "same_rules_as" in rb:
                break
            if "same_rule_as" in r:
                rules.append(rules[r["same_rule_as"]])
                continue
            rule = fl.Rule.create(r["text"], e) if route == "rule-create-with-engine" else fl.Rule.create(r["text"])
            _set_weight(rule, r["weight"], spec["decimals"])
            rule.enabled = r["enabled"]
            rules.append(rule)
        if "same_rules_as" in rb:
            rules = list(e.rule_blocks[rb["same_rules_as"]].rules)
        a = rb["activation"]
        if route == "factories":
            fm = fl.settings.factory_manager
            op = lambda k: (fm.tnorm if k != "disjunction" else fm.snorm).construct(rb[k]) if rb[k] else None  # noqa: E731
        else:
            op = lambda k: getattr(fl, rb[k])() if rb[k] else None  # noqa: E731
        # (the rules as a list, a tuple, or a one-shot iterable - the parameter is an iterable of rules)
        given = [rules, rules, tuple(rules), iter(rules), (r for r in rules)][(len(rules) + len(rb["name"]) + len(spec["inputs"])) % 5] if spec.get("rule_containers") else rules
        e.rule_blocks.append(fl.RuleBlock(rb["name"], rb["description"], rb["enabled"], op("conjunction"), op("disjunction"), op("implication"), getattr(fl, a["cls"])(*a.get("args", ())) if a else None, given))
        if len(e.rule_blocks[-1].rules) != len(rules) or any(x is not y for x, y in zip(e.rule_blocks[-1].rules, rules)):
            raise SpecMismatch(f"a rule block built from {len(rules)} rules holds {len(e.rule_blocks[-1].rules)}")
    for v in e.variables:
        for t in v.terms:
            t.update_reference(e)
    for rb in e.rule_blocks:
        _quietly(lambda rb=rb: rb.load_rules(e), spec)
    if route == "engine-configure" and spec.get("configure_by"):
        by = spec["configure_by"]
        # (a caller may have removed operators from single components: take each from the first component that has it)
        b0 = {k: next((rb[k] for rb in spec["blocks"] if rb[k] is not None), None) for k in ("conjunction", "disjunction", "implication", "activation")}
        o0 = {k: next((ov[k] for ov in spec["outputs"] if ov[k] is not None), None) for k in ("aggregation", "defuzzifier")}

        def arg(k, value, make):
            return None if value is None else (value if by[k] == "name" else make())

        a = b0["activation"]
        e.configure(
            conjunction=arg("conjunction", b0["conjunction"], lambda: getattr(fl, b0["conjunction"])()),
            disjunction=arg("disjunction", b0["disjunction"], lambda: getattr(fl, b0["disjunction"])()),
            implication=arg("implication", b0["implication"], lambda: getattr(fl, b0["implication"])()),
            aggregation=arg("aggregation", o0["aggregation"], lambda: getattr(fl, o0["aggregation"])()),
            defuzzifier=arg("defuzzifier", o0["defuzzifier"] and o0["defuzzifier"]["cls"], lambda: build_defuzzifier(fl, o0["defuzzifier"])),
            activation=arg("activation", a and a["cls"], lambda: getattr(fl, a["cls"])(*a.get("args", ()))),
        )
        # operators a caller removed from single components afterwards stay removed
        for rb, rbs in zip(e.rule_blocks, spec["blocks"]):
            for k in ("conjunction", "disjunction", "implication", "activation"):
                if rbs[k] is None:
                    setattr(rb, k, None)
        for ov, ovs in zip(e.output_variables, spec["outputs"]):
            for k in ("aggregation", "defuzzifier"):
                if ovs[k] is None:
                    setattr(ov, k, None)
    if route == "configure" and not spec.get("shared_defuzzifier"):
        # the same operators again, given by name to the block / variable (what Engine.configure does for a whole engine)
        fm = fl.settings.factory_manager
        for rb, rbs in zip(e.rule_blocks, spec["blocks"]):
            for k, factory in (("conjunction", fm.tnorm), ("disjunction", fm.snorm), ("implication", fm.tnorm)):
                if rbs[k]:
                    setattr(rb, k, factory.construct(rbs[k]))
            if rbs["activation"]:
                act = fm.activation.construct(rbs["activation"]["cls"])
                args = rbs["activation"].get("args", [])
                if args:
                    act.configure(" ".join(repr(a) if isinstance(a, float) else str(a) for a in args))
                rb.activation = act
        for ov, ovs in zip(e.output_variables, spec["outputs"]):
            if ovs["aggregation"]:
                ov.aggregation = fm.snorm.construct(ovs["aggregation"])
            if ovs["defuzzifier"]:
                dz = fm.defuzzifier.construct(ovs["defuzzifier"]["cls"])
                dz.configure(str(ovs["defuzzifier"].get("resolution", ovs["defuzzifier"].get("type", ""))))
                ov.defuzzifier = dz
    return e


def rows(rnd, spec, n):
    """input rows: interior, range bounds, term breakpoints and their two floating-point neighbours, out of range, +-inf, NaN"""
    out = []
    for _ in range(n):
        row = []
        for v in spec["inputs"]:
            c = rnd.random()
            lo = v["minimum"] if math.isfinite(v["minimum"]) else -10.0
            hi = v["maximum"] if math.isfinite(v["maximum"]) else lo + 20.0
            if c < 0.55:
                x = rnd.uniform(lo, hi)
            elif c < 0.65:
                x = rnd.choice([lo, hi])
            elif c < 0.8:
                ps = G.breakpoints(rnd.choice(v["terms"])) if v["terms"] else []
                x = rnd.choice(ps) if ps else 0.0
                x = rnd.choice([x, math.nextafter(x, inf), math.nextafter(x, -inf)])
            elif c < 0.88:
                x = rnd.choice([lo - 1, hi + 1])
            elif c < 0.94:
                x = rnd.choice([inf, -inf])
            else:
                x = nan
            row.append(x)
        out.append(row)
    return out


def finite_rows(rnd, spec, n):
    def mid(v):
        lo = v["minimum"] if math.isfinite(v["minimum"]) else -10.0
        hi = v["maximum"] if math.isfinite(v["maximum"]) else lo + 20.0
        return rnd.uniform(lo, hi)

    return [[(x if math.isfinite(x) else mid(v)) for x, v in zip(r, spec["inputs"])] for r in rows(rnd, spec, n)]


def exotic(rnd, spec, empty_engine_name=True):
    """legitimate but uncommon configurations for the round-trip properties: missing operators (`none`), variables without
    terms, rule blocks without rules, names with spaces or empty names (engines and rule blocks only - variable and term names
    must be identifiers)"""
    spec["name"] = rnd.choice([spec["name"], "my engine", "Motor-1 (v2)"] + ([""] if empty_engine_name else []))
    for rb in spec["blocks"]:
        rb["name"] = rnd.choice([rb["name"], rb["name"], "", "rules one"])
        for op in ("conjunction", "disjunction", "implication"):
            if rnd.random() < 0.08:
                rb[op] = None
        if rnd.random() < 0.08:
            rb["activation"] = None
    for o in spec["outputs"]:
        if rnd.random() < 0.08:
            o["defuzzifier"] = None
        if rnd.random() < 0.1:
            o["aggregation"] = None
    if rnd.random() < 0.25:  # a height of exactly zero (degenerate but representable)
        v = rnd.choice(spec["inputs"] + spec["outputs"])
        cands = [t for t in v["terms"] if t["cls"] not in ("Constant", "Linear", "Function")]
        if cands:
            rnd.choice(cands)["height"] = 0.0
    if rnd.random() < 0.3:  # identifiers with non-ASCII letters (valid Python / FuzzyLite identifiers)
        rename = {}
        v = rnd.choice(spec["inputs"] + spec["outputs"])
        rename[v["name"]] = rnd.choice(["température", "größe", "λ"]) + v["name"][-1]
        if v["terms"]:
            t = rnd.choice(v["terms"])
            rename[t["name"]] = rnd.choice(["élevé", "niedrig_ß", "μ"]) + t["name"]
        apply_rename(spec, rename)
    if rnd.random() < 0.2:
        spec["inputs"].append(dict(name="spare", description="", enabled=rnd.random() < 0.7, minimum=0.0, maximum=1.0, lock_range=False, terms=[]))
    if rnd.random() < 0.2:
        spec["outputs"].append(dict(name="idle", description="", enabled=True, minimum=0.0, maximum=1.0, lock_range=False, lock_previous=False, default_value=nan, aggregation=None, terms=[], kind="integral", defuzzifier=dict(cls="Centroid", resolution=100)))
    if rnd.random() < 0.2:
        spec["blocks"].append(dict(name="emptyblock", description="", enabled=True, conjunction="Minimum", disjunction="Maximum", implication="Minimum", activation=dict(cls="General", args=[]), rules=[]))
    return spec


VAR_NAMES = ["T", "t", "Temp", "temp", "TEMP", "is", "Is", "IS", "v_1", "_v", "If", "Then", "With", "And", "Or", "Any", "Very", "Not", "Speed", "speed"]
TERM_NAMES = ["Low", "LOW", "low", "is", "Is", "High", "HIGH", "high", "T", "t", "And", "Then", "Any", "Not", "Very", "_", "l_0", "L_0"]


def unusual_names(rnd, spec):
    """legal but unusual names: names that differ only in case (two variables `T` and `t`, terms `Low` and `LOW` of one
    variable), the word `is`, capitalised keywords and hedge names of the rule language, underscores and digits, one term
    name used in several variables, a term named like a variable.  Every name stays unique where the library needs it to be
    (variables among variables, terms within their variable)"""
    rename, used = {}, set()
    for v in spec["inputs"] + spec["outputs"]:
        if rnd.random() < 0.8:
            cands = [n for n in VAR_NAMES if n not in used]
            # prefer a name that differs only in case from one already taken
            close = [n for n in cands if n.lower() in {u.lower() for u in used}]
            new = rnd.choice(close) if (close and rnd.random() < 0.6) else rnd.choice(cands)
            rename[v["name"]] = new
            used.add(new)
        else:
            used.add(v["name"])
        tused = set()
        for t in v["terms"]:
            if rnd.random() < 0.8:
                cands = [n for n in TERM_NAMES if n not in tused]
                close = [n for n in cands if n.lower() in {u.lower() for u in tused}]
                new = rnd.choice(close) if (close and rnd.random() < 0.6) else rnd.choice(cands)
                rename[t["name"]] = new
                tused.add(new)
            else:
                tused.add(t["name"])
    apply_rename(spec, rename)
    spec["odd_names"] = True
    return spec


def apply_rename(spec, rename):
    """rename variables / terms consistently in the variables, the rule texts and the rule trees"""
    import re

    def word(text):
        return re.sub(r"[^\s()]+", lambda m: rename.get(m.group(0), m.group(0)), text)

    def tree(t):
        if t[0] == "prop":
            p = t[1]
            return ("prop", dict(p, var=rename.get(p["var"], p["var"]), term=rename.get(p["term"], p["term"]) if p["term"] else None))
        return (t[0], tree(t[1]), tree(t[2]))

    for v in spec["inputs"] + spec["outputs"]:
        v["name"] = rename.get(v["name"], v["name"])
        for t in v["terms"]:
            t["name"] = rename.get(t["name"], t["name"])
            if t.get("formula"):
                t["formula"] = word(t["formula"])
    for rb in spec["blocks"]:
        for r in rb["rules"]:
            r["text"] = word(r["text"])
            r["tree"] = tree(r["tree"])
            r["concl"] = [dict(c, var=rename.get(c["var"], c["var"]), term=rename.get(c["term"], c["term"]) if c["term"] else None) for c in r["concl"]]


def make_rule(fl, rnd, text, engine):
    """the same rule through different public routes"""
    route = rnd.choice(["create", "create", "text-setter", "rule-block", "importer"])
    if route == "create":
        return fl.Rule.create(text, engine)
    if route == "text-setter":
        rule = fl.Rule()
        rule.text = text
        rule.load(engine)
        return rule
    if route == "rule-block":
        rule = fl.Rule.create(text)
        fl.RuleBlock("tmp", rules=[rule]).load_rules(engine)
        return rule
    return fl.FllImporter().rule(f"rule: {text}", engine)


def retype(ctx, fl, rnd, engine):
    """the same numbers held as NumPy floating-point scalars (parameters taken from arrays): float64 always, float32 where the
    value is exactly representable - the engine is the same engine"""

    def conv(x):
        if isinstance(x, bool) or not isinstance(x, float):
            return x
        kind = rnd.choice([np.float64, np.float32, None])
        if kind is None or (kind is np.float32 and math.isfinite(x) and float(np.float32(x)) != x):
            return x
        return kind(x)

    for v in engine.variables:
        v.minimum, v.maximum = conv(v.minimum), conv(v.maximum)
        if isinstance(v, fl.OutputVariable):
            v.default_value = conv(v.default_value)
        for t in v.terms:
            for name in ATTRS.get(type(t).__name__, ()):
                setattr(t, name, conv(getattr(t, name)))
            if type(t).__name__ == "Constant":
                t.value = conv(t.value)
            t.height = conv(t.height)
    ctx.hit("workload:numbers held as NumPy floating-point scalars")


def rejected_edit(rnd, engine):
    """a rule of the engine is given another rule's text, damaged so that the rule parser refuses it late (after it has read
    the antecedent, or the consequent): the edit is rejected, so the engine is the engine it was; returns the number of
    rejected edits"""
    rules = [r for rb in engine.rule_blocks for r in rb.rules]
    n = 0
    for rule in rnd.sample(rules, min(len(rules), 2)):
        other = rnd.choice(rules)
        base = other.text.split(" with ")[0]
        bad = rnd.choice([base.split(" then ")[0] + " then", base + " with 0,5", base + " with 50%", base + " with", base + " with 0.5 0.5"])
        try:
            rule.text = bad
        except Exception:
            n += 1
    return n
