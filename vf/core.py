"""Shared machinery of the runtime-monitoring checks: run context, three-valued verdicts, evidence, replay files,
known-findings classification, sharded workers.  Standard library only (numpy comes with /repo's interpreter)."""
from __future__ import annotations

import collections
import contextlib
import hashlib
import json
import math
import os
import random
import subprocess
import sys
import time
import traceback
from pathlib import Path

VERIF = Path(__file__).resolve().parent.parent
EVIDENCE = Path(os.environ.get("VERIF_EVIDENCE_DIR") or VERIF / "evidence")  # redirected only by tools/mutate.py
REPLAYS = Path(os.environ.get("VERIF_REPLAY_DIR") or VERIF / "replays")
KNOWN = VERIF / "known_findings.json"
GUARD = "PYFUZZYLITE_VERIF"

EXIT_HELD, EXIT_VIOLATED, EXIT_INCONCLUSIVE = 0, 1, 2


def import_library():
    """Import fuzzylite from /repo's working tree (never from a cache or another copy) and return the module."""
    repo = os.environ.get("VERIF_REPO", "/repo")
    if repo not in sys.path:
        sys.path.insert(0, repo)
    sys.dont_write_bytecode = True
    import warnings

    warnings.simplefilter("ignore")
    import fuzzylite

    where = os.path.realpath(fuzzylite.__file__)
    if not where.startswith(os.path.realpath(repo) + os.sep):
        raise SystemExit(f"INCONCLUSIVE: fuzzylite imported from {where}, expected a tree under {repo}")
    return fuzzylite


def jsonable(x, depth=0):
    """Plain-JSON rendering of a case (NaN/inf become strings so that evidence stays standard JSON)."""
    import numpy as np

    if depth > 12:
        return repr(x)[:200]
    if isinstance(x, (bool, type(None), str, int)):
        return x
    if isinstance(x, (float, np.floating)):
        x = float(x)
        return x if math.isfinite(x) else repr(x)
    if isinstance(x, np.integer):
        return int(x)
    if isinstance(x, np.bool_):
        return bool(x)
    if isinstance(x, np.ndarray):
        if x.size > 64:
            return {"ndarray_shape": list(x.shape), "head": jsonable(x.ravel()[:16].tolist(), depth + 1)}
        return jsonable(x.tolist(), depth + 1)
    if isinstance(x, dict):
        return {str(k): jsonable(v, depth + 1) for k, v in x.items()}
    if isinstance(x, (list, tuple, set, frozenset)):
        return [jsonable(v, depth + 1) for v in x]
    return repr(x)[:300]


def describe(obj, limit=4000):
    """str(obj) for a violation record; an object that cannot even be printed (the very thing being reported, sometimes) is
    described by its type and the error instead of breaking the monitor"""
    try:
        return str(obj)[:limit]
    except Exception as ex:  # noqa: BLE001
        return f"<{type(obj).__name__} that cannot be printed: {type(ex).__name__}: {str(ex)[:120]}>"


def digest(*parts) -> int:
    h = hashlib.blake2b(repr(parts).encode(), digest_size=8).digest()
    return int.from_bytes(h, "big")


class Inconclusive(Exception):
    pass


class Ctx:
    """One run (or one shard of a run) of one property's check."""

    def __init__(self, prop, tier, seed, shard=0, nshards=1, replay=None):
        self.prop, self.tier, self.seed, self.shard, self.nshards = prop, tier, seed, shard, nshards
        self.replay = replay  # dict(stream=..., index=...) or None
        self.thorough = tier == "thorough"
        self.counts = collections.Counter()  # free-form counters (pieces, hooks, classes)
        self.evaluations = 0
        self.distinct = set()
        self.samples = []
        self.sample_kinds = collections.Counter()
        self.violations = []  # dicts
        self.violation_keys = collections.Counter()
        self.known_hits = collections.Counter()
        self.known_examples = {}
        self.extra = {}
        self.assumptions = []
        self.rule = ""
        self.level = "exploration"
        self.exhaustive = None
        self.required = []  # counters that must be > 0, else inconclusive
        self.current = None  # (stream, index)
        self.t0 = time.time()
        self.deadline = None
        self.excuse = None  # callable(mechanism, observed, note) -> True when the environment, not the library, is responsible
        self._known = load_known(prop)

    # ---- case streams -------------------------------------------------------------------------------------
    def cases(self, stream, n, start=0):
        """Yield (index, rnd) for the cases of `stream` that belong to this shard; every case has its own PRNG so
        that `--replay` can re-run exactly one of them."""
        for i in range(start, n):
            if self.replay is not None:
                if self.replay["stream"] != stream or self.replay["index"] != i:
                    continue
            elif i % self.nshards != self.shard:
                continue
            if self.deadline and time.time() > self.deadline:
                self.counts[f"budget_cut:{stream}"] += 1
                return
            self.current = (stream, i)
            yield i, random.Random(f"{self.prop}:{self.seed}:{stream}:{i}")
        self.current = None

    def scale(self, quick, thorough):
        return thorough if self.thorough else quick

    # ---- observations -------------------------------------------------------------------------------------
    def hit(self, key, *more):
        """count an observation; hit(key, n) adds n; further string arguments are counted as keys of their own"""
        n = 1
        for m in more:
            if isinstance(m, str):
                self.counts[m] += 1
            else:
                n = m
        self.counts[key] += n

    def evaluated(self, n=1):
        self.evaluations += n

    def nontrivial(self, *parts):
        if len(self.distinct) < 400_000:
            self.distinct.add(digest(*parts))
        else:
            self.counts["distinct_cap_reached"] += 1

    def sample(self, kind, case):
        """Keep a few concrete cases (at most 2 per kind, 8 in total) for the evidence file."""
        if self.sample_kinds[kind] >= 2 or len(self.samples) >= 8:
            return
        self.sample_kinds[kind] += 1
        self.samples.append({"kind": kind, "at": list(self.current or ()), "case": jsonable(case)})

    def violation(self, mechanism, case, expected=None, observed=None, note=""):
        """Record a refuting observation.  `mechanism` names *how* it fails (used for known-findings lookup and for
        de-duplication), never a seed or a hash."""
        if self.excuse is not None and self.excuse(mechanism, observed, note):
            self.counts["excused by the environment:" + mechanism[:80]] += 1
            return
        entry = self._known.get(mechanism)
        if entry and entry.get("status") == "known":
            self.known_hits[mechanism] += 1
            self.known_examples.setdefault(mechanism, jsonable(case))
            return
        self.violation_keys[mechanism] += 1
        if self.violation_keys[mechanism] <= 3:
            self.violations.append(
                {
                    "mechanism": mechanism,
                    "stream": (self.current or (None, None))[0],
                    "index": (self.current or (None, None))[1],
                    "shard": self.shard,
                    "nshards": self.nshards,
                    "case": jsonable(case),
                    "expected": jsonable(expected),
                    "observed": jsonable(observed),
                    "note": note,
                }
            )

    def require(self, *counters):
        self.required.extend(counters)

    @contextlib.contextmanager
    def guarded(self):
        """Body of one workload case.  An exception that escapes the library is let through the monitors (they never
        swallow); when a monitor has reported it as a violation the rest of the workload still runs, otherwise it is
        re-raised (a crash of the harness is inconclusive, never silently dropped)."""
        before = sum(self.violation_keys.values()) + sum(self.known_hits.values())
        try:
            yield
        except Inconclusive:
            raise
        except Exception as ex:
            if sum(self.violation_keys.values()) + sum(self.known_hits.values()) == before:
                raise
            self.hit("workload case aborted by an exception a monitor reported:" + type(ex).__name__)

    # ---- result -------------------------------------------------------------------------------------------
    def partial(self):
        return {
            "counts": dict(self.counts),
            "evaluations": self.evaluations,
            "distinct": sorted(self.distinct),
            "samples": self.samples,
            "violations": self.violations,
            "violation_keys": dict(self.violation_keys),
            "known_hits": dict(self.known_hits),
            "known_examples": self.known_examples,
            "extra": jsonable(self.extra),
            "assumptions": self.assumptions,
            "rule": self.rule,
            "level": self.level,
            "exhaustive": self.exhaustive,
            "required": self.required,
            "wall_s": time.time() - self.t0,
        }


def load_known(prop):
    try:
        data = json.loads(KNOWN.read_text())
    except FileNotFoundError:
        return {}
    return {e["mechanism"]: e for e in data.get("findings", []) if e.get("property") == prop}


def merge(parts):
    out = {
        "counts": collections.Counter(),
        "evaluations": 0,
        "distinct": set(),
        "samples": [],
        "violations": [],
        "violation_keys": collections.Counter(),
        "known_hits": collections.Counter(),
        "known_examples": {},
        "extra": {},
        "assumptions": [],
        "rule": "",
        "level": "exploration",
        "exhaustive": None,
        "required": [],
        "wall_s": 0.0,
    }
    for p in parts:
        out["counts"].update(p["counts"])
        out["evaluations"] += p["evaluations"]
        out["distinct"].update(p["distinct"])
        for s in p["samples"]:
            if len(out["samples"]) < 8:
                out["samples"].append(s)
        out["violations"].extend(p["violations"])
        out["violation_keys"].update(p["violation_keys"])
        out["known_hits"].update(p["known_hits"])
        for k, v in p["known_examples"].items():
            out["known_examples"].setdefault(k, v)
        for k, v in p["extra"].items():
            if k == "anchored_lines" and isinstance(v, dict):
                cur = out["extra"].setdefault(k, {})
                for label, info in v.items():
                    if label not in cur:
                        cur[label] = dict(info)
                    else:  # a line is reached if any worker reached it
                        missed = [ln for ln in cur[label].get("missed", []) if ln in info.get("missed", [])]
                        cur[label] = {"lines_total": info.get("lines_total"), "lines_reached": max(cur[label].get("lines_reached", 0), info.get("lines_reached", 0), (info.get("lines_total") or 0) - len(missed) if len(info.get("missed", [])) < 12 and len(cur[label].get("missed", [])) < 12 else 0), "missed": missed}
                continue
            if isinstance(v, list):
                cur = out["extra"].setdefault(k, [])
                for item in v:
                    if item not in cur:
                        cur.append(item)
            elif isinstance(v, (int, float)) and not isinstance(v, bool) and isinstance(out["extra"].get(k, 0), (int, float)):
                out["extra"][k] = out["extra"].get(k, 0) + v
            else:
                out["extra"].setdefault(k, v)
        for a in p["assumptions"]:
            if a not in out["assumptions"]:
                out["assumptions"].append(a)
        out["rule"] = out["rule"] or p["rule"]
        if p["level"] != "exploration" or not out["level"]:
            out["level"] = p["level"]  # (a passive part, which knows no level of its own, does not overrule the check's)
        if p["exhaustive"] is not None:
            out["exhaustive"] = p["exhaustive"] if out["exhaustive"] is None else (out["exhaustive"] and p["exhaustive"])
        for r in p["required"]:
            if r not in out["required"]:
                out["required"].append(r)
        out["wall_s"] = max(out["wall_s"], p["wall_s"])
    return out


def finish(prop, tier, seed, merged, wall, inconclusive_reasons, workers):
    """Write evidence, replay files, print verdict lines, return the exit code."""
    EVIDENCE.mkdir(exist_ok=True)
    known = load_known(prop)
    counts = merged["counts"]
    missing = [r for r in merged["required"] if counts.get(r, 0) <= 0]
    if missing:
        inconclusive_reasons.append(f"deciding monitors/pieces never observed: {missing}")
    if merged["evaluations"] <= 0:
        inconclusive_reasons.append("no oracle evaluation happened")
    nviol = sum(merged["violation_keys"].values())
    replay_paths = []
    if merged["violations"]:
        REPLAYS.mkdir(exist_ok=True)
        seen = collections.Counter()
        for v in merged["violations"]:
            seen[v["mechanism"]] += 1
            if seen[v["mechanism"]] > 2:
                continue
            slug = "".join(ch if ch.isalnum() or ch in "-_.=" else "_" for ch in v["mechanism"])[:70]
            name = f"{prop}-{tier}-s{seed}-{slug}-{digest(v['mechanism']) % 100000:05d}-{seen[v['mechanism']]}.json"
            path = REPLAYS / name
            path.write_text(json.dumps({"property": prop, "tier": tier, "seed": seed, **v}, indent=1))
            replay_paths.append((v["mechanism"], path))
    coverage = {
        "evaluations": int(merged["evaluations"]),
        "distinct_nontrivial": len(merged["distinct"]),
        "rule": merged["rule"],
        "samples": merged["samples"] or [{"kind": "none", "case": "no sample recorded"}],
        "observed": {k: counts[k] for k in sorted(counts)},
        "known_findings_hit": {k: {"witnesses": n, "example": merged["known_examples"].get(k)} for k, n in merged["known_hits"].items()},
        "violations_by_mechanism": dict(merged["violation_keys"]),
        "workers": workers,
        "verdict": "violated" if nviol else ("inconclusive" if inconclusive_reasons else "held on what was observed"),
        "inconclusive_reasons": inconclusive_reasons,
    }
    if merged["exhaustive"] is not None:
        coverage["exhaustive"] = bool(merged["exhaustive"])
    coverage.update(merged["extra"])
    evidence = {
        "property_id": prop,
        "tier": tier,
        "seed": int(seed),
        "level": merged["level"],
        "coverage": coverage,
        "assumptions": merged["assumptions"],
        "wall_s": round(wall, 3),
        "violations": int(nviol),
    }
    (EVIDENCE / f"{prop}.json").write_text(json.dumps(evidence, indent=1, sort_keys=False))
    print(f"[{prop}] tier={tier} seed={seed} evaluations={merged['evaluations']} distinct_nontrivial={len(merged['distinct'])} wall={wall:.1f}s")
    for mech, n in sorted(merged["known_hits"].items()):
        e = known.get(mech, {})
        print(f"KNOWN-FINDING: property={prop} {mech} [{e.get('summary') or e.get('description', '')[:140]}] ({n} witnesses this run)")
    if nviol:
        for mech, path in replay_paths:
            print(f"VIOLATION property={prop} replay={path}  # {mech} x{merged['violation_keys'][mech]}")
        return EXIT_VIOLATED
    if inconclusive_reasons:
        for r in inconclusive_reasons:
            print(f"INCONCLUSIVE property={prop}: {r}")
        return EXIT_INCONCLUSIVE
    print(f"[{prop}] held on everything observed")
    return EXIT_HELD


def run_shard(module, prop, tier, seed, shard, nshards, replay=None, budget=None):
    ctx = Ctx(prop, tier, seed, shard, nshards, replay)
    if budget:
        ctx.deadline = time.time() + budget
    try:
        module.run(ctx)
    except Inconclusive as ex:
        ctx.counts["inconclusive:" + str(ex)[:120]] += 1
    except Exception as ex:
        # the workload died on an exception out of the library: the violations already recorded stand (the run is
        # reported violated with what was seen up to that point); with none recorded it is a crash of the check
        if not ctx.violation_keys:
            raise
        ctx.counts["workload aborted by " + type(ex).__name__ + " after a violation was recorded"] += 1
    return ctx.partial()


def main(argv=None):
    import argparse
    import importlib

    ap = argparse.ArgumentParser()
    ap.add_argument("prop")
    ap.add_argument("--tier", default=os.environ.get("VERIF_TIER", "quick"), choices=["quick", "thorough"])
    ap.add_argument("--seed", type=int, default=int(os.environ.get("VERIF_SEED", "0")))
    ap.add_argument("--shard", default=None)
    ap.add_argument("--out", default=None)
    ap.add_argument("--replay", default=None)
    ap.add_argument("--workers", type=int, default=None)
    args = ap.parse_args(argv)
    prop = args.prop.upper()
    module = importlib.import_module(f"vf.props.{prop.lower()}")
    t0 = time.time()
    if args.shard:  # worker mode
        shard, nshards = map(int, args.shard.split("/"))
        part = run_shard(module, prop, args.tier, args.seed, shard, nshards, budget=getattr(module, "BUDGET", {}).get(args.tier))
        Path(args.out).write_text(json.dumps(part))
        return 0
    if args.replay:
        r = json.loads(Path(args.replay).read_text())
        part = run_shard(module, prop, r["tier"], r["seed"], r.get("shard", 0), r.get("nshards", 1), replay={"stream": r["stream"], "index": r["index"]})
        merged = merge([part])
        nviol = sum(merged["violation_keys"].values())
        print(json.dumps(merged["violations"], indent=1)[:6000])
        print(f"replay: evaluations={merged['evaluations']} violations={nviol} known={dict(merged['known_hits'])}")
        return EXIT_VIOLATED if nviol else EXIT_HELD
    nworkers = args.workers or (getattr(module, "WORKERS", {"quick": 1, "thorough": 16}).get(args.tier, 1))
    reasons = []
    if nworkers <= 1:
        try:
            parts = [run_shard(module, prop, args.tier, args.seed, 0, 1, budget=getattr(module, "BUDGET", {}).get(args.tier))]
        except Exception:
            traceback.print_exc()
            print(f"INCONCLUSIVE property={prop}: the check itself crashed (see traceback)")
            return EXIT_INCONCLUSIVE
    else:
        import tempfile

        tmp = Path(tempfile.mkdtemp(prefix=f"vf-{prop}-"))
        procs = []
        env = dict(os.environ, PYTHONHASHSEED="0", **{GUARD: "1"})
        for s in range(nworkers):
            out = tmp / f"part{s}.json"
            cmd = [sys.executable, "-m", "vf.core", prop, "--tier", args.tier, "--seed", str(args.seed), "--shard", f"{s}/{nworkers}", "--out", str(out)]
            procs.append((s, out, subprocess.Popen(cmd, cwd=str(VERIF), env=env, stdout=subprocess.PIPE, stderr=subprocess.STDOUT, text=True)))
        passive = None
        if hasattr(module, "passive") and (args.tier == "thorough" or os.environ.get("VF_PASSIVE") == "1"):
            pout = tmp / "passive.json"
            penv = dict(env, VF_PASSIVE_PROP=prop, VF_PASSIVE_OUT=str(pout), VERIF_SEED=str(args.seed), PYTHONPATH=str(VERIF))
            repo = os.environ.get("VERIF_REPO", "/repo")
            pcmd = [sys.executable, "-m", "pytest", "-q", "-x", "--no-header", "-p", "no:cacheprovider", "-p", "vf.pytest_plugin", "--timeout=900", "--continue-on-collection-errors", "tests"]
            pcmd.remove("-x")
            passive = (pout, subprocess.Popen(pcmd, cwd=repo, env=penv, stdout=subprocess.PIPE, stderr=subprocess.STDOUT, text=True))
        parts = []
        watchdog = getattr(module, "WATCHDOG", {"quick": 600, "thorough": 3600}).get(args.tier, 3600)
        for s, out, p in procs:
            try:
                stdout, _ = p.communicate(timeout=max(1, watchdog - (time.time() - t0)))
            except subprocess.TimeoutExpired:
                p.kill()
                stdout = ""
                reasons.append(f"worker {s} exceeded the wall-clock watchdog ({watchdog}s)")
                continue
            if p.returncode != 0 or not out.exists():
                reasons.append(f"worker {s} died (exit {p.returncode}): {stdout[-800:]}")
                continue
            parts.append(json.loads(out.read_text()))
        if passive is not None:
            pout, pp = passive
            try:
                pstdout, _ = pp.communicate(timeout=max(1, watchdog - (time.time() - t0)))
                if pout.exists():
                    parts.append(json.loads(pout.read_text()))
                else:
                    reasons.append(f"passive run (repository test-suite under the monitors) produced no result: {pstdout[-600:]}")
            except subprocess.TimeoutExpired:
                pp.kill()
                reasons.append("passive run (repository test-suite under the monitors) exceeded the watchdog")
        import shutil

        shutil.rmtree(tmp, ignore_errors=True)
    merged = merge(parts) if parts else merge([])
    for k in list(merged["counts"]):
        if k.startswith("inconclusive:"):
            reasons.append(k)
    return finish(prop, args.tier, args.seed, merged, time.time() - t0, reasons, nworkers)


if __name__ == "__main__":
    sys.exit(main())
