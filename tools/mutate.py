#!/venv/bin/python
"""Validate a monitor against a deliberate property-breaking change on a scratch copy of /repo (never /repo itself).

    tools/mutate.py <Cnn>[,Cmm] <file> <old> <new> [--tests] [--tier quick|thorough] [--count N]
    tools/mutate.py <Cnn> --patch file.diff [--tests]

Copies /repo (without .git) to a temp dir, applies the change, runs ./check with VERIF_REPO pointing at the copy,
prints the exit code (1 = caught) and removes the copy."""
import argparse, os, shutil, subprocess, sys, tempfile
from pathlib import Path

ap = argparse.ArgumentParser()
ap.add_argument("props")
ap.add_argument("file", nargs="?")
ap.add_argument("old", nargs="?")
ap.add_argument("new", nargs="?")
ap.add_argument("--patch")
ap.add_argument("--tests", action="store_true")
ap.add_argument("--tier", default="quick")
ap.add_argument("--count", type=int, default=1)
ap.add_argument("--seed", default="0")
a = ap.parse_args()
tmp = Path(tempfile.mkdtemp(prefix="vfmut-"))
try:
    copy = tmp / "repo"
    shutil.copytree("/repo", copy, ignore=shutil.ignore_patterns(".git", "docs", "__pycache__", "site"))
    if a.patch:
        r = subprocess.run(["patch", "-p1", "-s", "-i", os.path.abspath(a.patch)], cwd=copy)
        if r.returncode:
            sys.exit("patch failed")
    else:
        p = copy / a.file
        s = p.read_text()
        if s.count(a.old) < 1:
            sys.exit(f"pattern not found in {a.file}: {a.old!r}")
        p.write_text(s.replace(a.old, a.new, a.count))
    r = subprocess.run([sys.executable, "-c", "import fuzzylite"], cwd=copy, env=dict(os.environ, PYTHONPATH=str(copy)), capture_output=True, text=True)
    if r.returncode:
        sys.exit("mutant does not import: " + r.stderr[-400:])
    if a.tests:
        r = subprocess.run([sys.executable, "-m", "pytest", "-q", "-x", "-p", "no:cacheprovider", "--deselect", "tests/test_exporter.py::TestPythonExporter::test_object", "--deselect", "tests/test_benchmark.py::TestBenchmark::test_measure"], cwd=copy, env=dict(os.environ, PYTHONPATH=str(copy)), capture_output=True, text=True)
        print("repo tests on mutant:", r.stdout.strip().splitlines()[-1] if r.stdout.strip() else r.stderr[-300:])
    for prop in a.props.split(","):
        r = subprocess.run(["./check", prop, "--tier", a.tier, "--seed", a.seed], cwd="/verif", env=dict(os.environ, VERIF_REPO=str(copy), VERIF_EVIDENCE_DIR=str(tmp / "evidence"), VERIF_REPLAY_DIR=str(tmp / "replays")), capture_output=True, text=True)
        lines = [l for l in r.stdout.splitlines() if l.startswith(("VIOLATION", "INCONCLUSIVE", "KNOWN"))]
        print(f"{prop}: exit={r.returncode} {'CAUGHT' if r.returncode == 1 else 'MISSED' if r.returncode == 0 else 'INCONCLUSIVE'}")
        for l in lines[:4]:
            print("   ", l[:220])
        if r.returncode not in (0, 1):
            print(r.stdout[-600:], r.stderr[-600:])
finally:
    shutil.rmtree(tmp, ignore_errors=True)
