"""C15 — Python export reconstructs an identical engine.

Deciding step: a monitor on PythonExporter.to_string executes the library's import statement and the produced code
in a fresh namespace (eval for the plain representation, exec + instantiation for the encapsulated one) and compares
the reconstructed object with the original: Python representation, FuzzyLite Language export and structural digest;
the workload adds the bit-identical-outputs check and the representation of each component on its own."""
from __future__ import annotations

import copy
import math

import numpy as np

from ..core import import_library
from ..gen import engines as E
from ..env import ENVIRONMENTS, excusable, hostile
from ..probe import Probe, Reach
from ..ref import structure as S
from ..ref import wiring as W
from . import c08

WORKERS = {"quick": 1, "thorough": 16}
ALIASES = ["fl", "", "*", "fuzzy"]


class PythonMonitor:
    def __init__(self, ctx, fl):
        self.ctx, self.fl = ctx, fl
        self.last = None
        self.names = {}  # names the workload's own classes are known by (what a user's module would hold), for executing the code

    DEDICATED = ("engine", "input_variable", "output_variable", "rule_block", "term", "norm", "activation", "defuzzifier", "rule")

    def install(self, probe):
        probe.wrap(self.fl.PythonExporter, "to_string", after=self._after)
        for name in self.DEDICATED:
            probe.wrap(self.fl.PythonExporter, name, after=self._after_dedicated(name))

    def _after_dedicated(self, name):
        def after(args, kwargs, token, result, exc):
            # the exporter's method for one kind of component: the same code as to_string gives for it ("None" for none)
            ctx, exporter, instance = self.ctx, args[0], args[1]
            ctx.evaluated()
            ctx.hit("compare:dedicated method " + name)
            if exc is not None:
                ctx.violation(f"PythonExporter.{name} raises {type(exc).__name__}", {"component": repr(instance)[:300]}, "code", repr(exc)[:200])
                return
            if instance is None:
                if result != "None":
                    ctx.violation(f"PythonExporter.{name}(None) is not None", {}, "None", result)
                return
            if self.judged is not None and self.judged[0] is instance and self.judged[1] == result:
                return  # produced by a to_string call on the same object that was judged a moment ago
            self._after((exporter, instance), {}, None, result, None)

        return after

    def rebuild(self, exporter, instance, code):
        fl = self.fl
        ns = dict(self.names)
        exec(fl.representation.import_statement(), ns)
        if exporter.encapsulated:
            exec(code, ns)
            if isinstance(instance, fl.Engine):
                cls = ns[fl.Op.pascal_case(instance.name)]
                return cls().engine
            return ns["create"]()
        return eval(code, ns)

    def _after(self, args, kwargs, token, result, exc):
        ctx, fl = self.ctx, self.fl
        exporter, instance = args[0], args[1]
        alias = fl.settings.alias
        kind = type(instance).__name__ if not isinstance(instance, (fl.Term, fl.Norm, fl.Defuzzifier, fl.Activation)) else next(b.__name__ for b in (fl.Term, fl.Norm, fl.Defuzzifier, fl.Activation) if isinstance(instance, b))
        if not isinstance(instance, (fl.Engine, fl.Variable, fl.Term, fl.RuleBlock, fl.Rule, fl.Norm, fl.Activation, fl.Defuzzifier, fl.Hedge)):
            ctx.hit("out_of_domain:not an engine or a component")
            return
        case = {"alias": alias, "encapsulated": exporter.encapsulated, "formatted": exporter.formatted, "kind": kind, "code": str(result)[:3000] if result else None}
        ctx.evaluated()
        self.last = None
        self.judged = (instance, result)
        if exc is not None:
            ctx.violation(f"exporting a {kind} to Python raises {type(exc).__name__}", dict(case, error=repr(exc)[:200]), "code", repr(exc)[:200])
            return
        if instance is None:
            return
        try:
            back = self.rebuild(exporter, instance, result)
        except Exception as ex:
            ctx.violation(f"the exported Python code of a {kind} cannot be executed ({type(ex).__name__})", dict(case, error=repr(ex)[:300]), "an object", repr(ex)[:300])
            return
        self.last = back
        ctx.hit(f"compare:{'encapsulated' if exporter.encapsulated else 'plain'}:{'formatted' if exporter.formatted else 'unformatted'}:alias={alias!r}")
        ctx.hit(f"kind:{kind}")
        if type(back) is not type(instance):
            ctx.violation("the reconstructed object has another class", case, type(instance).__name__, type(back).__name__)
            return
        if repr(back) != repr(instance):
            ctx.violation(f"the reconstructed {kind}'s Python representation differs from the original's", case, repr(instance)[:1500], repr(back)[:1500])
            return
        if isinstance(instance, (fl.Norm, fl.Activation, fl.Defuzzifier, fl.Hedge)) or (isinstance(instance, fl.Term) and type(instance).__module__ != fl.Term.__module__):
            # a component that is nothing but its settings: the reconstructed one holds the same settings (what its text shows
            # and what it does not)
            ctx.hit("compare:settings of a reconstructed component")
            va, vb = {k: v for k, v in vars(instance).items() if not k.startswith("_")}, {k: v for k, v in vars(back).items() if not k.startswith("_")}
            if va.keys() != vb.keys() or any(not same_setting(va[k], vb[k]) for k in va):
                ctx.violation(f"the reconstructed {kind} does not hold the settings of the original", case, {k: repr(v)[:80] for k, v in va.items()}, {k: repr(v)[:80] for k, v in vb.items()})
                return
        if isinstance(instance, (fl.Engine, fl.Variable, fl.Term, fl.RuleBlock, fl.Rule, fl.Norm, fl.Activation, fl.Defuzzifier)):
            a, b = fl.Op.to_fll(instance), fl.Op.to_fll(back)
            if a != b:
                ctx.violation(f"the reconstructed {kind}'s FuzzyLite Language export differs from the original's", case, a[:1500], b[:1500])
                return
        if isinstance(instance, fl.Engine):
            d = fl.settings.decimals
            diffs = S.differences(S.engine_digest(fl, instance), S.engine_digest(fl, back), 0.0)
            # rules travel as text: weights are only required to agree at the configured decimals
            diffs = [x for x in diffs if not (S.kind_of(x[0]) == "rule.weight" and abs(float(x[1]) - float(x[2])) <= 0.5 * 10.0**-d * (1 + 1e-9) + (fl.settings.atol if float(x[2]) == 1.0 else 0))]
            for path, x, y in diffs[:3]:
                kindp = S.kind_of(path)
                if kindp == "rule.enabled":
                    ctx.violation("Rule.enabled is not representable in the Python export: a disabled rule is reconstructed enabled", dict(case, path=path), x, y)
                else:
                    ctx.violation(f"the reconstructed engine differs structurally from the original ({kindp})", dict(case, path=path), x, y)
            if not diffs:
                ctx.nontrivial(result)


def same_setting(a, b):
    if isinstance(a, float) and isinstance(b, float):
        return a == b or (a != a and b != b)
    if isinstance(a, np.ndarray) or isinstance(b, np.ndarray):
        return bool(np.array_equal(np.asarray(a), np.asarray(b), equal_nan=True))
    if type(a) is not type(b):
        return False
    if isinstance(a, (int, str, bool, type(None), enum_type())):
        return a == b
    return repr(a) == repr(b)


def enum_type():
    import enum

    return enum.Enum


def arbitrary(rnd, spec):
    """arbitrary finite doubles for term/range/threshold/default parameters (rule weights stay on the grid)"""
    s = copy.deepcopy(spec)
    for v in s["inputs"] + s["outputs"]:
        for t in v["terms"]:
            if t["cls"] == "Function":
                # the term's own map of variables (only the Python representation carries it): 0..8 entries
                n = rnd.choice([0, 0, 1, 3, 5, 6, 8])
                t["variables"] = {f"k{j}": rnd.choice([0.5, 2.0, -1.25, rnd.uniform(-3, 3)]) for j in range(n)}
                if n and rnd.random() < 0.7:
                    t["formula"] = t["formula"] + " + k0"
                continue
            t["params"] = [p * (1 + rnd.uniform(-1e-4, 1e-4)) + rnd.uniform(-1e-3, 1e-3) if (math.isfinite(p) and rnd.random() < 0.7) else p for p in t["params"]]
            if t["cls"] in ("Constant", "Linear", "Gaussian", "Bell", "Spike", "Sigmoid", "Cosine") and rnd.random() < 0.15:
                t["params"][0] = -0.0  # negative zero must keep its sign
            if t["cls"] in ("PiShape", "Trapezoid", "Triangle", "Discrete", "Rectangle", "SShape", "ZShape"):
                # keep the ordering constraints of the vertices
                if t["cls"] == "Discrete":
                    xs = sorted(t["params"][0::2])
                    if rnd.random() < 0.3:
                        rnd.shuffle(xs)  # pairs that are not in ascending order of x are kept as given
                    t["params"][0::2] = xs
                elif t["cls"] in ("PiShape", "Trapezoid", "Triangle"):
                    t["params"] = sorted(t["params"])
                else:
                    t["params"] = sorted(t["params"], reverse=t["cls"] == "Rectangle" and t["params"][0] > t["params"][1])
            if t.get("height", 1.0) != 1.0:
                t["height"] = min(0.99, max(0.01, t["height"] + rnd.uniform(-1e-3, 1e-3)))
        v["description"] = rnd.choice(["", "it's \"quoted\"", "back\\slash", "a 'single' quote", "tab\tand unicode é", "two lines\r\nof text", "old\rline ends\nmixed", "a long description that goes well beyond the thirty characters reprlib keeps by default, " * 2])
    for o in s["outputs"]:
        if not math.isnan(o["default_value"]):
            o["default_value"] = o["default_value"] + rnd.uniform(-1e-5, 1e-5) if rnd.random() < 0.8 else -0.0
    s["description"] = rnd.choice(["", "engine's \"description\""])
    return s


def components(fl, engine):
    out = list(engine.input_variables) + list(engine.output_variables) + list(engine.rule_blocks)
    for v in engine.variables:
        out += list(v.terms)
    for rb in engine.rule_blocks:
        out += [rb.conjunction, rb.disjunction, rb.implication, rb.activation] + list(rb.rules[:2])
    for ov in engine.output_variables:
        out += [ov.aggregation, ov.defuzzifier]
    return [c for c in out if c is not None]


def assign_defaults(engine, spec):
    """attributes assigned after construction (what an importer or an application does) hold exactly what was assigned"""
    by_name = {o["name"]: o for o in spec["outputs"]}
    for ov in engine.output_variables:
        if ov.name in by_name:
            ov.default_value = by_name[ov.name]["default_value"]


def dedicated(fl, exporter, c):
    """the exporter's own method for this kind of component"""
    for cls, name in ((fl.Engine, "engine"), (fl.InputVariable, "input_variable"), (fl.OutputVariable, "output_variable"), (fl.RuleBlock, "rule_block"), (fl.Term, "term"), (fl.Norm, "norm"), (fl.Activation, "activation"), (fl.Defuzzifier, "defuzzifier"), (fl.Rule, "rule")):
        if isinstance(c, cls):
            return getattr(exporter, name)(c)
    return None


def run(ctx):
    fl = import_library()
    nengines = ctx.scale(60, 4000)
    ctx.rule = (
        f"every PythonExporter.to_string call observed. Workload: {nengines} generated engines (as in C14, with arbitrary finite double parameters, +-inf and "
        "NaN values, quotes and backslashes in descriptions; rule weights on the decimals grid) and their components x alias settings {'fl', '', '*', "
        "custom} x {plain representation, encapsulated} x {unformatted; formatted with black on a sample (all in the thorough tier)} x input rows. "
        "distinct_nontrivial = distinct generated codes whose execution reconstructed an identical engine"
    )
    ctx.assumptions += ["each evaluation runs in a fresh namespace after executing representation.import_statement()", "identical outputs are required only when no rule is disabled (recorded finding: Rule.enabled is not part of Rule.create('...'))", "black is the formatter shipped in /venv"]
    funcs = {"Representation.as_constructor": fl.library.Representation.as_constructor, "Representation.construction_arguments": fl.library.Representation.construction_arguments, "Representation.repr_float": fl.library.Representation.repr_float, "Representation.repr_ndarray": fl.library.Representation.repr_ndarray, "Representation.package_of": fl.library.Representation.package_of, "Representation.import_statement": fl.library.Representation.import_statement, "PythonExporter.encapsulate": fl.PythonExporter.encapsulate}
    ctx.excuse = lambda mechanism, observed, note: excusable(observed)
    with Reach(funcs) as reach, Probe() as probe:
        mon = PythonMonitor(ctx, fl)
        mon.install(probe)
        for i, rnd in ctx.cases("engines", nengines):
            d = rnd.choice([3, 3, 1, 6])
            with fl.settings.context(decimals=d):
                spec = arbitrary(rnd, E.gen_engine(rnd, activations=tuple(c08.METHODS), d=d, descriptions=True, infinite=True, reversed_bounds=True, max_rules=rnd.choice([4, 4, 9]), kinds=("integral", "ts", "ts", "tsukamoto", "inverse")))
                if rnd.random() < 0.4:
                    spec = E.exotic(rnd, spec, empty_engine_name=False)  # the encapsulating class is named after the engine
                    ctx.hit("workload:exotic configuration")
                if rnd.random() < 0.08:  # a table of several hundred pairs whose values need all their digits
                    v = rnd.choice(spec["inputs"])
                    npairs = rnd.choice([501, 520, 700])
                    xs_ = np.linspace(-1.0, 2.0, npairs)
                    params = []
                    for x_ in xs_:
                        params += [float(x_), float(np.exp(-((x_ - 0.4) ** 2) / 3.0))]
                    v["terms"].append(dict(cls="Discrete", name=f"table{v['name']}", params=params, height=1.0))
                    ctx.hit("workload:Discrete term with more than 500 pairs")
                if rnd.random() < 0.3:  # long lists (more than reprlib's default of six items)
                    v = rnd.choice(spec["inputs"])
                    lo_, hi_ = (v["minimum"] if math.isfinite(v["minimum"]) else -5.0), (v["maximum"] if math.isfinite(v["maximum"]) else 5.0)
                    if not hi_ > lo_:
                        hi_ = lo_ + 1.0
                    v["terms"] += [E.G.shape_term(rnd, f"x{v['name']}{j}", lo_, hi_, d=d) for j in range(7)]
                for o in spec["outputs"]:
                    if rnd.random() < 0.15:
                        o["default_value"] = rnd.choice([0.0, -0.0])
                # "every engine": also those that were not put together with constructors
                spec["route"] = rnd.choice(["constructors", "constructors", "factories", "fll", "configure", "rule-create-with-engine", "copy-as-is", "deepcopy-as-is"])
                if spec["route"] == "fll" and any("\n" in x["description"] or "\r" in x["description"] for x in spec["inputs"] + spec["outputs"] + spec["blocks"] + [spec]):
                    spec["route"] = "constructors"  # the FuzzyLite Language has no way to write a line break inside a description
                try:
                    engine = E.build(fl, spec)
                except Exception as ex:
                    ctx.hit(f"inconclusive:generated engine does not build: {type(ex).__name__}: {str(ex)[:60]}")
                    continue
                ctx.hit("route:" + spec["route"])
                if rnd.random() < 0.3:
                    # the engine is written out once, then a rule is re-weighted, then it is written out again (judged below)
                    repr(engine)
                    str(engine)
                    for rb, rbs in zip(engine.rule_blocks, spec["blocks"]):
                        for r, rs in zip(rb.rules, rbs["rules"]):
                            if rnd.random() < 0.5:
                                w = rnd.choice([0.5, 0.2, 0.7, 1.0]) if d == 1 else rnd.choice([0.5, 0.25, 0.75, 1.0])  # on the d-decimals grid
                                r.weight = w
                                rs["weight"] = w
                                rs["text"] = rs["text"].split(" with ")[0] + E.weight_text(w, d)
                    ctx.hit("workload:rule weights assigned after the engine was written out")
                spec["assign_defaults"] = rnd.random() < 0.5
                if spec["assign_defaults"]:
                    assign_defaults(engine, spec)
                    ctx.hit("workload:attributes assigned after construction")
                if rnd.random() < 0.3:
                    E.retype(ctx, fl, rnd, engine)
                if rnd.random() < 0.25 and E.rejected_edit(rnd, engine):
                    ctx.hit("workload:a rule was given a text that the parser rejected")
                for a, alias in enumerate(ALIASES):
                    with fl.settings.context(alias=alias):
                        for encapsulated in (False, True):
                            formatted_options = [False] + ([True] if (ctx.thorough or (i + a) % 8 == 0) else [])
                            for formatted in formatted_options:
                                exporter = fl.PythonExporter(formatted=formatted, encapsulated=encapsulated)
                                try:
                                    # (now and then in a process that is not in its default state: the code is written, and executed
                                    # by the monitor, with warnings as errors, in debug mode or under other print options)
                                    with hostile(fl, ENVIRONMENTS[(i // 5) % len(ENVIRONMENTS)] if i % 5 == 2 else None, ctx):
                                        exporter.to_string(engine)  # judged by the monitor
                                except Exception:
                                    continue
                                if mon.last is not None and a == (i % 4) and not formatted:
                                    same_outputs(ctx, fl, rnd, spec, engine, mon.last)
                        if a == i % 4:
                            for c in components(fl, engine):
                                for encapsulated in (False, True):
                                    try:
                                        fl.PythonExporter(formatted=False, encapsulated=encapsulated).to_string(c)
                                    except Exception:
                                        pass
                                try:
                                    dedicated(fl, fl.PythonExporter(formatted=False), c)
                                except Exception:
                                    pass
                if i < 2:
                    ctx.sample("engine", {"decimals": d, "repr": repr(engine)[:2500]})
        # components on their own, as the factories and configure(parameters) leave them (what an FLL import builds): terms with
        # the bounds or pairs in the order they were written, heights, and the parameterised operators
        for i, rnd in ctx.cases("components", ctx.scale(1200, 40_000)):
            d = rnd.choice([3, 3, 1, 6])
            lo, hi = E.gen_range(rnd)
            spec = arbitrary(rnd, dict(inputs=[dict(terms=[E.G.shape_term(rnd, "t", lo, hi, d=d, reversed_bounds=True)], description="")], outputs=[]))["inputs"][0]["terms"][0]
            with fl.settings.context(decimals=d, alias=ALIASES[i % len(ALIASES)]):
                try:
                    term = E._term(fl, spec, None, "factories" if i % 3 else "constructors")
                except Exception as ex:
                    ctx.hit(f"inconclusive:generated term does not build: {type(ex).__name__}")
                    continue
                ctx.hit("component:term built by " + ("factory and configure" if i % 3 else "constructor"))
                try:
                    fl.PythonExporter(formatted=False, encapsulated=bool(i % 2)).to_string(term)  # judged by the monitor
                except Exception:
                    pass
        # a tighter comparison tolerance than the default one (settings.atol = 1e-6, six decimals): heights and weights that are
        # further from 1 than *that* tolerance are written out and come back
        for i, rnd in ctx.cases("tight tolerance", ctx.scale(24, 500)):
            with fl.settings.context(atol=1e-6, decimals=6):
                spec = E.gen_engine(rnd, activations=("General",), d=6, flags=False, locks=False, kinds=("integral", "tsukamoto"), max_rules=4, allow_output_antecedent=False)
                near = [0.9995, 0.9992, 1.0005, 0.99999, 0.999]
                for v in spec["inputs"] + spec["outputs"]:
                    for t in v["terms"]:
                        if t["cls"] not in ("Constant", "Linear", "Function") and rnd.random() < 0.5:
                            t["height"] = rnd.choice([h for h in near if h <= 1.0])
                for rb in spec["blocks"]:
                    for r in rb["rules"]:
                        if rnd.random() < 0.5:
                            r["weight"] = rnd.choice(near)
                            r["text"] = r["text"].split(" with ")[0] + f" with {r['weight']:.6f}"
                try:
                    engine = E.build(fl, spec)
                    fl.PythonExporter(formatted=False, encapsulated=bool(i % 2)).to_string(engine)  # judged by the monitor
                    if mon.last is not None:
                        same_outputs(ctx, fl, rnd, spec, engine, mon.last)
                    for c in components(fl, engine)[:12]:
                        fl.PythonExporter(formatted=False).to_string(c)
                except Exception as ex:
                    ctx.hit(f"inconclusive:tight tolerance: {type(ex).__name__}: {str(ex)[:60]}")
                    continue
                ctx.hit("workload:comparison tolerance tighter than the default")
        # engines that are copies of other engines (used as they come), with terms that read the engine's variables: the code written
        # for the copy reconstructs the copy
        for i, rnd in ctx.cases("copies", ctx.scale(24, 500)):
            with fl.settings.context(decimals=3):
                spec = E.gen_engine(rnd, activations=("General",), d=3, flags=False, locks=False, kinds=("ts",), max_rules=4, allow_output_antecedent=False)
                for o in spec["outputs"]:
                    o["terms"][0] = dict(cls="Function", name=o["terms"][0]["name"], params=[], formula=rnd.choice(E.FORMULAS[:4]), height=1.0)
                spec["route"] = ["copy-as-is", "deepcopy-as-is"][i % 2]
                try:
                    engine = E.build(fl, spec)
                    fl.PythonExporter(formatted=False, encapsulated=bool(i % 4 // 2)).to_string(engine)  # judged by the monitor
                except Exception as ex:
                    ctx.hit(f"inconclusive:copied engine: {type(ex).__name__}: {str(ex)[:60]}")
                    continue
                if mon.last is not None:
                    same_outputs(ctx, fl, rnd, spec, engine, mon.last)
                ctx.hit("workload:copy of an engine with Function terms exported")
        # components of a user's own classes: subclasses with constructor arguments of their own (defaulted), and distinct classes
        # that carry one and the same name (a class made by a function, a class defined again) with different constructors
        import sys as _sys

        TrimmedCentroid, ScaledAverage, make_slope = user_classes(fl)
        for i, rnd in ctx.cases("user classes", ctx.scale(30, 600)):
            alias = ALIASES[i % len(ALIASES)]
            slopes = [make_slope(bool((i + k) % 2)) for k in range(2)]
            mon.names = {"vf": _sys.modules["vf"], "TrimmedCentroid": TrimmedCentroid, "ScaledAverage": ScaledAverage}
            with fl.settings.context(alias=alias, decimals=3):
                cut, gain = rnd.choice([0.0, 0.4, 0.25]), rnd.choice([1.0, 2.0, 0.5])
                comps = [TrimmedCentroid(rnd.choice([None, 100, 50]), cut), TrimmedCentroid(cut=cut), ScaledAverage(gain=gain), ScaledAverage("TakagiSugeno", gain)]
                for c in comps:
                    for enc in (False, True):
                        try:
                            fl.PythonExporter(formatted=False, encapsulated=enc).to_string(c)  # judged by the monitor
                        except Exception:
                            pass
                if alias == "*":
                    # (classes made by a function carry no importable path: only the bare names can be executed)
                    for k, cls in enumerate(slopes):
                        mon.names["Slope"] = cls
                        term = cls("s", 0.0, 1.0, 0.25) if k == (i + 1) % 2 or not hasattr(cls, "HAS_FLOOR") else cls("s", 0.0, 1.0)
                        term = cls("s", 0.0, 1.0, floor=0.25) if cls.HAS_FLOOR else cls("s", 0.0, 1.0)
                        try:
                            fl.PythonExporter(formatted=False).to_string(term)  # judged by the monitor
                        except Exception:
                            pass
                    ctx.hit("workload:two classes of one name with different constructors")
                for mamdani in (True, False):
                    dz = TrimmedCentroid(100, cut) if mamdani else ScaledAverage(gain=gain)
                    engine = fl.Engine(
                        "user",
                        input_variables=[fl.InputVariable("a", minimum=0.0, maximum=1.0, terms=[fl.Triangle("low", 0.0, 0.25, 0.5), fl.Ramp("high", 0.25, 1.0)])],
                        output_variables=[fl.OutputVariable("o", minimum=0.0, maximum=2.0, aggregation=fl.Maximum(), defuzzifier=dz, terms=[fl.Triangle("x", 0.0, 1.0, 2.0), fl.Triangle("y", 0.5, 1.5, 2.0)] if mamdani else [fl.Constant("x", 0.5), fl.Constant("y", 1.5)])],
                        rule_blocks=[fl.RuleBlock("rb", conjunction=fl.Minimum(), disjunction=fl.Maximum(), implication=fl.Minimum(), activation=fl.General(), rules=[fl.Rule.create("if a is low then o is x"), fl.Rule.create("if a is high then o is y")])],
                    )
                    for enc in (False, True):
                        try:
                            fl.PythonExporter(formatted=False, encapsulated=enc).to_string(engine)  # judged by the monitor
                        except Exception:
                            continue
                        back = mon.last
                        if back is None:
                            continue
                        for x in (0.1, 0.3, 0.45, 0.8):
                            engine.input_variables[0].value = x
                            back.input_variables[0].value = x
                            engine.process()
                            back.process()
                            ctx.evaluated()
                            if not W.same(engine.output_variables[0].value, back.output_variables[0].value):
                                ctx.violation("the reconstructed engine computes different outputs", {"repr": repr(engine)[:2500], "rows": [x], "user_classes": True}, engine.output_variables[0].value, back.output_variables[0].value)
                                break
            mon.names = {}
            ctx.hit("workload:components of a user's own classes")
        probe.report(ctx)
        reach.report(ctx)
    ctx.require("workload:copy of an engine with Function terms exported", "workload:comparison tolerance tighter than the default")
    ctx.require("route:copy-as-is", "route:deepcopy-as-is", *[f"environment:{e}" for e in ENVIRONMENTS])
    ctx.require("workload:components of a user's own classes", "workload:two classes of one name with different constructors", "compare:settings of a reconstructed component")
    ctx.require("workload:a rule was given a text that the parser rejected", "workload:rule weights assigned after the engine was written out", "workload:Discrete term with more than 500 pairs", "component:term built by factory and configure", "compare:dedicated method input_variable", "compare:dedicated method rule_block", "compare:dedicated method term", "compare:dedicated method norm")
    ctx.require("hook:PythonExporter.to_string", "compare:identical outputs", "kind:Engine", "kind:Term", "kind:InputVariable", "kind:OutputVariable", "kind:RuleBlock", "kind:Rule", "kind:Norm", "kind:Defuzzifier", "kind:Activation")
    for alias in ALIASES:
        for enc in ("plain", "encapsulated"):
            ctx.require(f"compare:{enc}:unformatted:alias={alias!r}")
    ctx.require("compare:plain:formatted:alias='fl'") if ctx.nshards == 1 else None


_USER = {}


def user_classes(fl):
    """module-level classes (importable as vf.props.c15.<name>) and a function that makes classes of one name"""
    if "classes" not in _USER:

        class TrimmedCentroid(fl.Centroid):
            def __init__(self, resolution=None, cut=0.0):
                super().__init__(resolution)
                self.cut = cut

            def defuzzify(self, term, minimum, maximum):
                x = fl.Op.midpoints(minimum, maximum, self.resolution)
                y = np.atleast_2d(term.membership(np.atleast_2d(x).T)).reshape(len(x), -1)
                y = np.where(y >= self.cut, y, 0.0)
                with np.errstate(invalid="ignore", divide="ignore"):
                    return ((x[:, None] * y).sum(axis=0) / y.sum(axis=0)).squeeze()

        class ScaledAverage(fl.WeightedAverage):
            def __init__(self, type=fl.WeightedDefuzzifier.Type.Automatic, gain=1.0):
                super().__init__(type)
                self.gain = gain

            def defuzzify(self, term, minimum=float("nan"), maximum=float("nan")):
                return self.gain * super().defuzzify(term, minimum, maximum)

        for cls in (TrimmedCentroid, ScaledAverage):
            cls.__module__, cls.__qualname__ = __name__, cls.__name__
            globals()[cls.__name__] = cls

        def make_slope(with_floor):
            if with_floor:

                class Slope(fl.Term):
                    HAS_FLOOR = True

                    def __init__(self, name="", start=0.0, end=1.0, floor=0.0, height=1.0):
                        super().__init__(name, height)
                        self.start, self.end, self.floor = start, end, floor

                    def membership(self, x):
                        return self.height * np.maximum(self.floor, np.clip((fl.scalar(x) - self.start) / (self.end - self.start), 0.0, 1.0))

            else:

                class Slope(fl.Term):
                    HAS_FLOOR = False

                    def __init__(self, name="", start=0.0, end=1.0, height=1.0):
                        super().__init__(name, height)
                        self.start, self.end = start, end

                    def membership(self, x):
                        return self.height * np.clip((fl.scalar(x) - self.start) / (self.end - self.start), 0.0, 1.0)

            Slope.__module__, Slope.__qualname__ = __name__, "Slope"
            return Slope

        _USER["classes"] = (TrimmedCentroid, ScaledAverage, make_slope)
    return _USER["classes"]


def same_outputs(ctx, fl, rnd, spec, engine, back):
    if any(not r["enabled"] for rb in spec["blocks"] for r in rb["rules"]):
        ctx.hit("skipped:identical outputs not required when a rule is disabled (recorded finding)")
        return
    general = all(rb["activation"] and rb["activation"]["cls"] == "General" for rb in spec["blocks"])
    rows = E.rows(rnd, spec, 5)
    blocks = [[r] for r in rows[:3]] + ([rows[3:]] if general else [[r] for r in rows[3:]])
    fresh = E.build(fl, spec)
    if spec.get("assign_defaults"):
        assign_defaults(fresh, spec)
    for block in blocks:
        outs = []
        for e in (fresh, back):
            try:
                if len(block) == 1:
                    for v, x in zip(e.input_variables, block[0]):
                        v.value = x
                else:
                    arr = np.array(block, dtype=float)
                    for k, v in enumerate(e.input_variables):
                        v.value = arr[:, k]
                e.process()
                outs.append([np.array(ov.value, dtype=float, copy=True) for ov in e.output_variables])
            except Exception as ex:
                outs.append(repr(ex)[:120])
        ctx.hit("compare:identical outputs")
        ctx.evaluated()
        if isinstance(outs[0], str) or isinstance(outs[1], str):
            if isinstance(outs[0], str) != isinstance(outs[1], str):
                ctx.violation("the reconstructed engine raises where the original does not (or vice versa)", {"repr": repr(engine)[:2500], "rows": block}, outs[0], outs[1])
            continue
        for ov, a, b in zip(fresh.output_variables, outs[0], outs[1]):
            if not W.same(a, b):
                ctx.violation("the reconstructed engine computes different outputs", {"repr": repr(engine)[:2500], "rows": block, "variable": ov.name}, a, b)
                return


def passive(ctx, fl, probe):
    """attach this property's always-on monitor to a foreign workload (the repository's test-suite, see vf/pytest_plugin.py)"""
    mon = PythonMonitor(ctx, fl)
    mon.install(probe)
    return None
