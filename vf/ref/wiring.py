"""Wiring model of the documented inference pipeline: own tokenizer and recursive-descent parser of rule *text*, own
evaluation order, own contribution lists, own aggregation fold.  Leaf arithmetic (term.membership, norm.compute,
hedge.hedge, defuzzifier.defuzzify on an oracle-owned term) is delegated to the library's components, which are
judged by C03/C04/C05/C09/C10 - so the comparison with the library's pipeline can be bit-exact."""
from __future__ import annotations

import math
import re

import numpy as np

HEDGE_NAMES = {"any", "extremely", "not", "seldom", "somewhat", "very"}


def tokenize(text):
    return re.findall(r"[()]|[^\s()]+", text)


class RuleSyntax(Exception):
    pass


class Parser:
    """if <expr> then <conclusions> [with w];  expr := conj ('or' conj)* ; conj := atom ('and' atom)* ;
    atom := '(' expr ')' | var 'is' hedge* (term | <nothing after 'any'>)"""

    def __init__(self, tokens, low="or", high="and", right_assoc=False):
        """low/high: the loosest/tightest connective (documented: or < and); right_assoc only for the deliberately
        wrong readings used to tell whether a case can discriminate"""
        self.t, self.i = tokens, 0
        self.low, self.high, self.right_assoc = low, high, right_assoc

    def peek(self):
        return self.t[self.i] if self.i < len(self.t) else None

    def next(self):
        v = self.peek()
        if v is None:
            raise RuleSyntax("unexpected end")
        self.i += 1
        return v

    def expr(self):
        n = self.conj()
        if self.right_assoc:
            if self.peek() == self.low:
                self.next()
                return (self.low, n, self.expr())
            return n
        while self.peek() == self.low:
            self.next()
            n = (self.low, n, self.conj())
        return n

    def conj(self):
        n = self.atom()
        if self.right_assoc:
            if self.peek() == self.high:
                self.next()
                return (self.high, n, self.conj())
            return n
        while self.peek() == self.high:
            self.next()
            n = (self.high, n, self.atom())
        return n

    def atom(self):
        if self.peek() == "(":
            self.next()
            n = self.expr()
            if self.next() != ")":
                raise RuleSyntax("expected )")
            return n
        var = self.next()
        if self.next() != "is":
            raise RuleSyntax("expected is")
        hs = []
        while self.peek() in HEDGE_NAMES:
            h = self.next()
            hs.append(h)
            if h == "any":
                return ("prop", var, hs, None)
        return ("prop", var, hs, self.next())


def parse_antecedent(text, **variant):
    p = Parser(tokenize(text), **variant)
    tree = p.expr()
    if p.peek() is not None:
        raise RuleSyntax("trailing antecedent tokens")
    return tree


def parse_rule(text):
    toks = tokenize(text)
    if not toks or toks[0] != "if" or "then" not in toks:
        raise RuleSyntax("expected if ... then ...")
    th = toks.index("then")
    p = Parser(toks[1:th])
    tree = p.expr()
    if p.peek() is not None:
        raise RuleSyntax("trailing antecedent tokens")
    rest, w = toks[th + 1 :], 1.0
    if "with" in rest:
        k = rest.index("with")
        w = float(rest[k + 1])
        if len(rest) != k + 2:
            raise RuleSyntax("trailing tokens after the weight")
        rest = rest[:k]
    concl, i = [], 0
    while i < len(rest):
        var = rest[i]
        if rest[i + 1] != "is":
            raise RuleSyntax("expected is")
        i += 2
        hs = []
        while rest[i] in HEDGE_NAMES:
            hs.append(rest[i])
            i += 1
        concl.append((var, hs, rest[i]))
        i += 1
        if i < len(rest):
            if rest[i] != "and":
                raise RuleSyntax("expected and")
            i += 1
    return tree, concl, w


def antecedent_postfix(tree):
    if tree[0] == "prop":
        _, var, hs, term = tree
        return " ".join([var, "is"] + hs + ([term] if term else []))
    return f"{antecedent_postfix(tree[1])} {antecedent_postfix(tree[2])} {tree[0]}"


class Oracle:
    def __init__(self, fl):
        self.fl = fl
        self.H = {h().name: h() for h in (fl.Any, fl.Extremely, fl.Not, fl.Seldom, fl.Somewhat, fl.Very)}

    # ---- antecedent ---------------------------------------------------------------------------------------
    def aggregated_degree(self, ov, term, contrib):
        agg = ov.aggregation or self.fl.UnboundedSum()
        d = None
        for t, deg, _imp in contrib[ov.name]:
            if t.name == term.name:
                d = deg if d is None else agg.compute(d, deg)
        return self.fl.scalar(0.0) if d is None else d

    def evaluate(self, node, variables, conjunction, disjunction, contrib):
        fl = self.fl
        if node[0] == "prop":
            _, var, hs, term = node
            v = variables[var]
            if not v.enabled:
                return fl.scalar(0.0)
            if hs and hs[-1] == "any":
                r = fl.scalar(np.nan)
            else:
                t = v.term(term)
                r = t.membership(v.value) if isinstance(v, fl.InputVariable) else self.aggregated_degree(v, t, contrib)
            for h in reversed(hs):
                r = self.H[h].hedge(r)
            return r
        op, left, right = node
        a = self.evaluate(left, variables, conjunction, disjunction, contrib)
        b = self.evaluate(right, variables, conjunction, disjunction, contrib)
        return (conjunction if op == "and" else disjunction).compute(a, b)

    # ---- whole pipeline -----------------------------------------------------------------------------------
    def contributions(self, engine, select=None, rejected=(), weights=None):
        """Returns (contrib: {output name: [(term, degree, implication)]}, degrees: {(block index, rule index): degree});
        rejected = (block index, rule index) of rules whose load the workload saw rejected: they are unloaded, whatever
        the rule object says, and take no part; weights = {(block, rule): weight the workload gave the rule} (else the rule's own)"""
        fl = self.fl
        contrib = {ov.name: [] for ov in engine.output_variables}
        variables = {}
        for v in engine.variables:  # first variable of a name wins (Engine.variable)
            variables.setdefault(v.name, v)
        degrees = {}
        for bi, rb in enumerate(engine.rule_blocks):
            if not rb.enabled:
                continue
            parsed = []
            for ri, rule in enumerate(rb.rules):
                if (bi, ri) in rejected:
                    parsed.append((ri, rule, [], None))
                    continue
                tree, concl, _w = parse_rule(rule.text)
                w = weights.get((bi, ri), rule.weight) if weights else rule.weight
                deg = w * self.evaluate(tree, variables, rb.conjunction, rb.disjunction, contrib) if rule.is_loaded() else None
                parsed.append((ri, rule, concl, deg))
                kind = type(rb.activation).__name__
                if kind == "General" and deg is not None:
                    degrees[(bi, ri)] = deg
                    self._fire(rule, concl, deg, rb, variables, contrib)
            kind = type(rb.activation).__name__
            if kind != "General":
                if select is None:
                    raise NotImplementedError("activation method other than General needs the selection model")
                loaded = [p[3] is not None for p in parsed]
                deg = [float(np.asarray(p[3])) if p[3] is not None else 0.0 for p in parsed]
                sel, newdeg = select(rb.activation, deg, loaded)
                for ri, rule, concl, d in parsed:
                    if d is not None:
                        degrees[(bi, ri)] = d
                for k in sel:
                    ri, rule, concl, d = parsed[k]
                    if newdeg and k in newdeg:  # Proportional: degrees divided by their sum
                        d = fl.scalar(newdeg[k])
                        degrees[(bi, ri)] = d
                    self._fire(rule, concl, d, rb, variables, contrib)
        return contrib, degrees

    def _fire(self, rule, concl, deg, rb, variables, contrib):
        if not rule.enabled:
            return
        for var, hs, term in concl:
            ov = variables[var]
            if not ov.enabled:
                continue
            d = deg
            for h in reversed(hs):
                d = self.H[h].hedge(d)
            contrib[var].append((ov.term(term), np.nan_to_num(d, nan=0.0, neginf=0.0, posinf=1.0), rb.implication))

    def defuzzified(self, ov, contributions, declared=None):
        """raw defuzzified value of the oracle's own contribution set (before the lock/default cascade); `declared` = the
        defuzzifier as the workload configured it ({cls, resolution | type}), when it knows"""
        fl = self.fl
        dz = fresh_defuzzifier(fl, ov.defuzzifier, declared)
        if isinstance(dz, fl.IntegralDefuzzifier):
            return dz.defuzzify(make_own_set(fl, ov.aggregation, contributions), ov.minimum, ov.maximum)
        fresh = fl.Aggregated(ov.name, ov.minimum, ov.maximum, ov.aggregation, [fl.Activated(t, d, i) for t, d, i in contributions])
        return dz.defuzzify(fresh, ov.minimum, ov.maximum)


def fresh_defuzzifier(fl, dz, declared=None):
    """a newly constructed defuzzifier of the same class and declared parameters: whatever the engine's own object has seen
    before (another output variable, an earlier step) is not part of the reference value"""
    if declared and dz is not None:
        return getattr(fl, declared["cls"])(declared["resolution"]) if "resolution" in declared else getattr(fl, declared["cls"])(declared["type"])
    try:
        if type(dz).__module__ == fl.defuzzifier.__name__:
            if isinstance(dz, fl.IntegralDefuzzifier):
                return type(dz)(int(dz.resolution))
            if isinstance(dz, fl.WeightedDefuzzifier):
                return type(dz)(dz.type)
    except Exception:
        pass
    return dz


def from_spec(tree):
    """generator tree ("prop", {var, hedges, term}) -> parser tree ("prop", var, hedges, term)"""
    if tree[0] == "prop":
        p = tree[1]
        return ("prop", p["var"], list(p["hedges"]), p["term"])
    return (tree[0], from_spec(tree[1]), from_spec(tree[2]))


_OWN = {}


def make_own_set(fl, aggregation, contributions):
    """A Term owned by the oracle whose membership is the oracle's own fold  (+)_j impl_j(degree_j, mu_j(x))  starting
    from 0 - Activated.membership / Aggregated.membership of the library are not used."""
    cls = _OWN.get(id(fl))
    if cls is None:

        class OwnSet(fl.Term):
            def __init__(self, aggregation, contributions):
                super().__init__("own")
                self.aggregation, self.contributions = aggregation, contributions

            def membership(self, x):
                if self.contributions and self.aggregation is None:
                    raise ValueError("expected an aggregation operator, but found none")
                y = fl.scalar(0.0)
                for term, degree, implication in self.contributions:
                    if implication is None:
                        raise ValueError("expected an implication operator, but found none")
                    column = np.atleast_2d(degree).T  # one row per batch row
                    m = implication.compute(column, term.membership(x))
                    if not (np.size(degree) > 1 and np.ndim(x) > 0):
                        m = m.squeeze()
                    y = self.aggregation.compute(y, m)
                return y

        cls = _OWN[id(fl)] = OwnSet
    return cls(aggregation, contributions)


def same(a, b):
    """bit-exact equality of two scalars/arrays (NaN equal to NaN, shapes broadcast)"""
    a, b = np.asarray(a, dtype=float), np.asarray(b, dtype=float)
    try:
        a, b = np.broadcast_arrays(a, b)
    except ValueError:
        return False
    return bool(np.all((a == b) | (np.isnan(a) & np.isnan(b))))


def agree(ctx, a, b, what="value"):
    """bit-exact agreement expected; a relative difference below 1e-12 (a correct implementation that orders its floating-point
    operations differently) is counted `ulp_diff` and tolerated, anything else is a disagreement"""
    if same(a, b):
        return True
    x, y = np.asarray(a, dtype=float), np.asarray(b, dtype=float)
    try:
        x, y = np.broadcast_arrays(x, y)
    except ValueError:
        return False
    ok = (x == y) | (np.isnan(x) & np.isnan(y)) | (np.isfinite(x) & np.isfinite(y) & (np.abs(x - y) <= 1e-12 * np.maximum(1.0, np.maximum(np.abs(x), np.abs(y)))))
    if bool(np.all(ok)):
        ctx.hit(f"ulp_diff:{what}")
        return True
    return False
