"""Which properties are claimed, at what level, decided by what."""
ALL = [f"C{n:02d}" for n in range(1, 21)]
CHECKS = {
    "C04": dict(
        level="exploration",
        technique="runtime monitor on Norm.compute (scalar reference formulas) + offline law checker over the recorded (a,b)->result table",
        text="Every observed Norm.compute element is compared with an independent scalar formula and the norm laws are checked over the "
        "recorded call table; the dyadic grid (pairs and triples) is enumerated exhaustively, random doubles are sampled. Held on the "
        "observed executions only.",
        note="tolerance 0 on exact-arithmetic norms over the dyadic grid, 1e-12 elsewhere, conditioning-aware term for HamacherSum; numpy ufunc arithmetic trusted",
    ),
}
NOT_APPLICABLE = [
    {"property_id": p, "reason": "check not built yet in this session (work in progress; see DESIGN.md §4)"} for p in ALL if p not in CHECKS
]
