#!/venv/bin/python
"""Run a property's check against a behaviour-preserving refactoring (scratch copy of /repo): the check must stay silent.

    tools/benign.py <dir with patch.diff, check.py, meta.json> <id> [--props C07,C01] [--thorough]"""
import argparse, json, os, shutil, subprocess, sys, tempfile, time
from pathlib import Path

ap = argparse.ArgumentParser()
ap.add_argument("src"); ap.add_argument("id"); ap.add_argument("--props", default=None); ap.add_argument("--thorough", action="store_true"); ap.add_argument("--keep", action="store_true")
a = ap.parse_args()
src = Path(a.src); meta = json.loads((src / "meta.json").read_text())
props = (a.props or meta["property"]).split(",")
tmp = Path(tempfile.mkdtemp(prefix="vfbenign-"))
record = {"id": a.id, "property": meta["property"], "summary": meta.get("summary"), "why_equivalent": meta.get("why_equivalent"), "max_numeric_difference": meta.get("max_numeric_difference"), "ran": []}
try:
    copy = tmp / "repo"
    shutil.copytree("/repo", copy, ignore=shutil.ignore_patterns(".git", "docs", "__pycache__", "site"))
    r = subprocess.run(["patch", "-p1", "-s", "-i", str((src / "patch.diff").resolve())], cwd=copy, capture_output=True, text=True)
    if r.returncode:
        sys.exit("patch does not apply: " + r.stdout + r.stderr)
    env = dict(os.environ, PYTHONPATH=str(copy))
    r = subprocess.run([sys.executable, "-m", "pytest", "-q", "-p", "no:cacheprovider", "--timeout=900", "--deselect", "tests/test_exporter.py::TestPythonExporter::test_object", "--deselect", "tests/test_benchmark.py::TestBenchmark::test_measure"], cwd=copy, env=env, capture_output=True, text=True)
    tests = r.stdout.strip().splitlines()[-1] if r.stdout.strip() else r.stderr[-200:]
    record["repo_tests_with_change"] = tests
    print("repo tests:", tests)
    if (src / "check.py").exists():
        rc = subprocess.run([sys.executable, str((src / "check.py").resolve())], cwd=tmp, env=env, capture_output=True, text=True, timeout=600)
        record["own_check_exit"] = rc.returncode
        print("author's check.py on the refactored tree: exit", rc.returncode)
    for p in props:
        for tier in ["quick"] + (["thorough"] if a.thorough else []):
            t0 = time.time()
            r = subprocess.run(["./check", p, "--tier", tier], cwd="/verif", env=dict(os.environ, VERIF_REPO=str(copy), VERIF_EVIDENCE_DIR=str(tmp / "evidence"), VERIF_REPLAY_DIR=str(tmp / "replays")), capture_output=True, text=True)
            lines = sorted({l.split("  # ")[-1] for l in r.stdout.splitlines() if l.startswith(("VIOLATION", "INCONCLUSIVE"))})
            verdict = {0: "silent", 1: "ALARM", 2: "inconclusive"}.get(r.returncode, f"exit {r.returncode}")
            record["ran"].append({"check": p, "tier": tier, "exit": r.returncode, "verdict": verdict, "wall_s": round(time.time() - t0, 1), "lines": lines[:6]})
            print(f"./check {p} --tier {tier}: {verdict} ({time.time() - t0:.0f}s)")
            for m in lines[:5]:
                print("    ", m[:260])
            if r.returncode == 2:
                print(r.stdout[-700:], r.stderr[-700:])
            if r.returncode == 1 and a.keep:
                shutil.copytree(tmp / "replays", f"/tmp/benign-replays-{a.id}", dirs_exist_ok=True)
    dest = Path("/verif/benign") / a.id
    dest.mkdir(parents=True, exist_ok=True)
    if src.resolve() != dest.resolve():
        shutil.copy(src / "patch.diff", dest / "patch.diff")
        if (src / "check.py").exists():
            shutil.copy(src / "check.py", dest / "check.py")
        for extra in src.glob("golden*"):  # recordings the author's check.py reads
            if extra.stat().st_size < 3_000_000:
                shutil.copy(extra, dest / extra.name)
    (dest / "meta.json").write_text(json.dumps(record, indent=1))
finally:
    shutil.rmtree(tmp, ignore_errors=True)
