"""C06 — Rule antecedents mean what the rule grammar says.

Deciding step: monitors on Rule.activate_with and Antecedent.load compare the degree the library computed (and the
postfix form of the tree it built) with the value/postfix of the generator's expression tree - the ground truth the
text was printed from - evaluated directly (leaves via the library's term/hedge/norm components).  For rules the
workload did not register the monitor falls back to its own recursive-descent parse of the text."""
from __future__ import annotations

import copy
import itertools

import numpy as np
from math import nan

from ..core import import_library
from ..gen import engines as E
from ..gen import terms as G
from ..env import ENVIRONMENTS, Held, excusable, hostile
from ..probe import Probe, Reach, plain_function
from ..ref import norms as N
from ..ref import wiring as W

WORKERS = {"quick": 1, "thorough": 16}


class AntecedentMonitor:
    def __init__(self, ctx, fl):
        self.ctx, self.fl = ctx, fl
        self.oracle = W.Oracle(fl)
        self.expected = {}  # antecedent text -> generator tree (parser format)
        self.weights = {}  # antecedent text -> weight the workload gave the rule (ground truth; else the rule's own)
        self.engines = {}  # antecedent text -> engine the workload loaded the rule for (its variables are the ones meant)

    def install(self, probe):
        fl = self.fl
        probe.wrap(fl.Rule, "activate_with", after=self._after_activate)
        probe.wrap(fl.Antecedent, "load", after=self._after_load)

    def tree_of(self, text):
        if text in self.expected:
            return self.expected[text], "generator tree"
        return W.parse_antecedent(text), "own parse of the text"

    def _after_load(self, args, kwargs, token, result, exc):
        ctx, ant = self.ctx, args[0]
        ctx.evaluated()
        registered = ant.text in self.expected
        if exc is not None:
            if registered:
                ctx.violation(f"a grammatical antecedent is rejected ({type(exc).__name__})", {"antecedent": ant.text}, "loaded", repr(exc)[:200])
            else:
                ctx.hit("event:load rejected (not a registered antecedent)")
                if ant.is_loaded():
                    # the text now held was refused: whatever expression is still there belongs to another text
                    ctx.violation("an antecedent whose text was rejected still holds (and would evaluate) an expression", {"antecedent": ant.text, "error": repr(exc)[:200]}, "unloaded", "loaded")
            return
        try:
            tree, how = self.tree_of(ant.text)
        except (W.RuleSyntax, IndexError):
            ctx.hit("out_of_domain:text outside the documented grammar")
            return
        ctx.hit(f"compare:postfix ({how})")
        want, got = W.antecedent_postfix(tree), ant.postfix()
        if want != got:
            ctx.violation("the loaded expression tree is not the tree the grammar gives (postfix differs)", {"antecedent": ant.text}, want, got)

    def variables_of(self, node, out):
        fl = self.fl
        if isinstance(node, fl.Proposition):
            if node.variable is not None:
                out.setdefault(node.variable.name, node.variable)
        elif isinstance(node, fl.Operator):
            self.variables_of(node.left, out)
            self.variables_of(node.right, out)
        return out

    def _after_activate(self, args, kwargs, token, result, exc):
        ctx, fl, rule = self.ctx, self.fl, args[0]
        conj, disj = args[1], args[2]
        if exc is not None or not rule.antecedent.is_loaded():
            ctx.hit("event:activate_with raised")
            if exc is not None and rule.antecedent.is_loaded() and rule.antecedent.text in self.expected and conj is not None and disj is not None and not isinstance(exc, (MemoryError, RecursionError)):
                # an antecedent of the workload: grammatical, loaded, both connectives given, values of one common shape
                ctx.violation(f"evaluating a loaded grammatical antecedent raises {type(exc).__name__}", {"rule": rule.text, "conjunction": type(conj).__name__, "disjunction": type(disj).__name__, "error": repr(exc)[:200]}, "a degree", repr(exc)[:200])
            return
        for op in (conj, disj):
            if op is not None and type(op).__name__ not in N.REF and not isinstance(op, (fl.NormLambda, fl.NormFunction)):
                ctx.hit("out_of_domain:custom operator")
                return
        text = rule.antecedent.text
        if "activation_degree" in vars(rule.antecedent) or "activate_with" in vars(rule):
            ctx.hit("out_of_domain:method replaced on the instance (mock)")
            return
        try:
            tree, how = self.tree_of(text)
        except (W.RuleSyntax, IndexError):
            ctx.hit("out_of_domain:text outside the documented grammar")
            return
        variables = self.variables_of(rule.antecedent.expression, {})
        owner = self.engines.get(text)
        if owner is not None:
            # the rule belongs to this engine: `variable` in the grammar is the engine's variable of that name
            ctx.hit("compare:variables resolved in the engine the rule belongs to")
            for name, bound in list(variables.items()):
                mine = next((v for v in owner.variables if v.name == name), None)
                if mine is not None and mine is not bound:
                    ctx.hit("event:a proposition is bound to a variable object outside its engine")
                    variables[name] = mine
        contrib = {v.name: [(a.term, a.degree, a.implication) for a in v.fuzzy.terms] for v in variables.values() if isinstance(v, fl.OutputVariable)}
        names = [t.name for v in variables.values() for t in v.terms]
        if any(len([1 for t in v.terms if t.name == n]) > 1 for v in variables.values() for n in {t.name for t in v.terms}):
            ctx.hit("out_of_domain:duplicate term names in a variable")
            return
        del names
        ctx.evaluated()
        try:
            value = self.oracle.evaluate(tree, variables, conj, disj, contrib)
        except (AttributeError, KeyError, ValueError) as ex:
            ctx.hit(f"out_of_domain:oracle cannot evaluate ({type(ex).__name__})")
            return
        want = self.weights.get(text, rule.weight) * value
        ctx.hit(f"compare:degree ({how})")
        if not W.agree(ctx, result, want, "degree") or not W.agree(ctx, rule.activation_degree, want, "degree"):
            ctx.violation("activation degree is not weight x value of the antecedent read with the documented grammar", {"rule": rule.text, "conjunction": type(conj).__name__, "disjunction": type(disj).__name__, "values": {n: v.value for n, v in variables.items()}}, want, result)
            return
        self.classify(tree, text, variables, conj, disj, contrib, value, rule)

    def classify(self, tree, text, variables, conj, disj, contrib, value, rule):
        """evidence: could this case tell the documented reading from a wrong one?"""
        ctx = self.ctx
        ops = collect_ops(tree)
        ctx.hit(f"shape:depth{depth(tree)}")
        if "and" in ops and "or" in ops:
            ctx.hit("shape:mixes and/or")
        if has(tree, lambda n: n[0] == "prop" and n[2] and n[2][-1] == "any"):
            ctx.hit("piece:any")
        if has(tree, lambda n: n[0] == "prop" and len(n[2]) >= 2):
            ctx.hit("piece:hedge chain")
        if has(tree, lambda n: n[0] == "prop" and not variables[n[1]].enabled):
            ctx.hit("piece:disabled variable")
        if has(tree, lambda n: n[0] == "prop" and n[1] in contrib):
            ctx.hit("piece:output variable proposition")
        if rule.weight != 1.0:
            ctx.hit("piece:weight")
        discriminating = False
        for variant in (dict(low="and", high="or"), dict(right_assoc=True), dict(low="and", high="or", right_assoc=True)):
            try:
                alt = W.parse_antecedent(text, **variant)
                if alt != tree and not W.same(self.oracle.evaluate(alt, variables, conj, disj, contrib), value):
                    discriminating = True
                    ctx.hit("discriminates:" + ("swapped precedence" if "low" in variant and "right_assoc" not in variant else "right associativity" if "low" not in variant else "both"))
            except Exception:
                pass
        # hedge order: listed order instead of nearest-the-term-first
        if has(tree, lambda n: n[0] == "prop" and len(n[2]) >= 2 and n[2] != n[2][::-1]):
            alt = map_props(tree, lambda n: ("prop", n[1], n[2][::-1] if "any" not in n[2] else n[2], n[3]))
            try:
                if not W.same(self.oracle.evaluate(alt, variables, conj, disj, contrib), value):
                    discriminating = True
                    ctx.hit("discriminates:hedge order")
            except Exception:
                pass
        if discriminating:
            ctx.nontrivial(shape(tree), type(conj).__name__, type(disj).__name__)


def collect_ops(t):
    return set() if t[0] == "prop" else {t[0]} | collect_ops(t[1]) | collect_ops(t[2])


def depth(t):
    return 0 if t[0] == "prop" else 1 + max(depth(t[1]), depth(t[2]))


def has(t, pred):
    if pred(t):
        return True
    return t[0] != "prop" and (has(t[1], pred) or has(t[2], pred))


def map_props(t, f):
    return f(t) if t[0] == "prop" else (t[0], map_props(t[1], f), map_props(t[2], f))


def shape(t):
    return f"p{len(t[2])}" if t[0] == "prop" else f"({shape(t[1])} {t[0]} {shape(t[2])})"


def live_propositions(fl, node):
    """the Proposition objects of a loaded expression, left to right"""
    if isinstance(node, fl.Proposition):
        return [node]
    if isinstance(node, fl.Operator):
        return live_propositions(fl, node.left) + live_propositions(fl, node.right)
    return []


def tree_propositions(t):
    """the proposition nodes of an oracle tree, left to right"""
    if t[0] == "prop":
        return [t]
    if len(t) == 3:
        return tree_propositions(t[1]) + tree_propositions(t[2])
    return []


def replace_node(t, old, new):
    if t is old:
        return new
    if t[0] == "prop":
        return t
    return (t[0], replace_node(t[1], old, new), replace_node(t[2], old, new))


def build_engine(fl, rnd, d=3):
    nin = rnd.randint(1, 3)
    spec_inputs, ivs = [], []
    for i in range(nin):
        lo, hi = E.gen_range(rnd)
        terms = [G.shape_term(rnd, f"a{i}{j}", lo, hi, d=d) for j in range(rnd.randint(1, 3))]
        spec_inputs.append(dict(name=f"in{i}", terms=terms, minimum=lo, maximum=hi))
        ivs.append(fl.InputVariable(f"in{i}", enabled=rnd.random() > 0.1, minimum=lo, maximum=hi, terms=[G.build_term(fl, t) for t in terms]))
    lo, hi = E.gen_range(rnd)
    oterms = [G.shape_term(rnd, f"b{j}", lo, hi, d=d) for j in range(rnd.randint(1, 3))]
    ov = fl.OutputVariable("out0", enabled=rnd.random() > 0.1, minimum=lo, maximum=hi, aggregation=getattr(fl, rnd.choice(N.SNORMS))() if rnd.random() < 0.7 else None, defuzzifier=fl.Centroid(10), terms=[G.build_term(fl, t) for t in oterms])
    spec_out = dict(name="out0", terms=oterms, minimum=lo, maximum=hi)
    engine = fl.Engine("e", input_variables=ivs, output_variables=[ov])
    return engine, spec_inputs, spec_out


def run(ctx):
    fl = import_library()
    nant = ctx.scale(1500, 100_000)
    max_depth = ctx.scale(4, 5)
    ctx.rule = (
        f"every Rule.activate_with and Antecedent.load call observed. Workload: {nant} antecedents printed from random expression trees (depth <= {max_depth}, "
        "1-3 input variables and an output variable with a pre-loaded fuzzy output, 0-3 hedges per proposition, `any`, disabled variables), with "
        "minimal or redundant parentheses, with or without spaces next to them, all 7x9 conjunction/disjunction pairs cycled, weights, 4 input "
        "rows each (scalar and batch). distinct_nontrivial = distinct (tree shape, operator pair) for which a wrong reading (swapped precedence, "
        "right associativity, hedges in listed order) gives a different number on the observed row - only those cases can discriminate"
    )
    ctx.assumptions += ["leaves (membership, hedge, norm) are the library's own (C03/C04/C05)", "bit-exact comparison", "`any` is generated last in its hedge list and never after `not`"]
    funcs = {"Antecedent.load": fl.Antecedent.load, "Antecedent.activation_degree": fl.Antecedent.activation_degree, "Rule.activate_with": fl.Rule.activate_with, "Function.infix_to_postfix": plain_function(fl.Function, "infix_to_postfix")}
    pairs = list(itertools.product(N.TNORMS, N.SNORMS))
    ctx.excuse = lambda mechanism, observed, note: excusable(observed)
    held = Held(ctx)
    with Reach(funcs) as reach, Probe() as probe:
        mon = AntecedentMonitor(ctx, fl)
        mon.install(probe)
        for i, rnd in ctx.cases("antecedents", nant):
            engine, spec_inputs, spec_out = build_engine(fl, rnd)
            ov = engine.output_variables[0]
            for t in rnd.sample(ov.terms, rnd.randint(0, len(ov.terms))) * rnd.choice([1, 2, 2, 3]):
                # (now and then the activation sits on an equal-named copy of the term: the aggregated activation of a term goes by name)
                if rnd.random() < 0.25:
                    t = copy.copy(t)
                    ctx.hit("event:fuzzy output holds an activation of an equal-named copy of a term")
                ov.fuzzy.terms.append(fl.Activated(t, rnd.choice([0.0, 1.0, 0.25, rnd.random()]), fl.Minimum()))
            tname, sname = pairs[i % len(pairs)]
            conj, disj = getattr(fl, tname)(), getattr(fl, sname)()
            if i % 9 == 4:
                # operators of the caller's own making (a function, a formula): each does the job it was given for
                conj = fl.NormLambda(lambda a, b: np.minimum(a, b) * 0.5) if i % 18 == 4 else fl.NormFunction(fl.Function.create("hp", "(a * b) / 2.0"))
                ctx.hit("workload:conjunction given as a function")
            if i % 9 == 7:
                disj = fl.NormLambda(lambda a, b: np.maximum(a, b) * 0.5 + 0.25)
                ctx.hit("workload:disjunction given as a function")
            variables = spec_inputs + ([spec_out] if rnd.random() < 0.45 else [])
            tree = E.gen_tree(rnd, variables, rnd.randint(1, max_depth))
            if i % 40 == 7:
                # a long chain without parentheses: 34 to 90 operands, both connectives (fast paths for long left spines)
                tree = ("prop", E.gen_prop(rnd, rnd.choice(variables), max_hedges=1))
                for _ in range(rnd.choice([33, 40, 70, 89])):
                    tree = (rnd.choice(["and", "and", "or"]), tree, ("prop", E.gen_prop(rnd, rnd.choice(variables), max_hedges=1)))
                ctx.hit("shape:chain of more than 32 operands")
            w = E.gen_weight(rnd, 3)
            fine = i % 6 == 1  # a weight written with more decimals than the library itself would print
            if fine:
                w = rnd.choice([0.0625, 0.3333, 0.0004, 0.12345, 0.9, 1e-4, 0.66667])
            style = i % 4
            text = E.tree_text(rnd, tree, redundant=(0.0, 0.3, 0.0, 0.5)[style], tight=(0.0, 0.0, 1.0, 0.5)[style])
            key = " ".join(text.split())
            mon.expected[key] = W.from_spec(tree)
            mon.weights[key] = w
            rule_text = f"if {text} then out0 is {spec_out['terms'][0]['name']}" + (f" with {w!r}" if fine else E.weight_text(w, 3))
            if fine:
                ctx.hit("piece:weight written with more than three decimals")
            try:
                if i % 2:
                    rule = E.make_rule(fl, rnd, rule_text, engine)
                else:
                    # a rule object that already held another (weighted) text is given this one: nothing of the old text may survive
                    rule = fl.Rule.create(f"if {E.prop_text(E.gen_prop(rnd, spec_inputs[0], allow_any=False))} then out0 is {spec_out['terms'][0]['name']} with 0.250", engine)
                    rule.text = rule_text
                    if i % 4 == 0:
                        fl.RuleBlock("loader", rules=[rule]).load_rules(engine)  # what an engine does with its blocks' rules
                        ctx.hit("event:loaded rule given another text and loaded again through its rule block")
                    else:
                        rule.load(engine)
                    ctx.hit("event:rule object reused for another text")
            except Exception:
                continue  # judged by the monitor on Antecedent.load
            # self-check of the oracle's own parser against the generator (so the fall-back reading is trustworthy)
            if W.parse_antecedent(text) != W.from_spec(tree):
                ctx.hit("inconclusive:own parser disagrees with the generator tree")
            source = None
            if i % 5 == 0:
                # the rule as it arrives in a duplicate of its engine (copy(), deepcopy, FLL text): the duplicate's rule reads the
                # duplicate's variables, whatever the source engine holds meanwhile
                how = rnd.choice(["copy", "copy", "deepcopy", "fll"])
                engine.rule_blocks.append(fl.RuleBlock("rb", rules=[rule]))
                try:
                    if how == "copy":
                        dup = engine.copy()
                    elif how == "deepcopy":
                        dup = copy.deepcopy(engine)
                    else:
                        with fl.settings.context(decimals=17):
                            dup = fl.FllImporter().from_string(fl.FllExporter().to_string(engine))
                        for a, b in zip(engine.variables, dup.variables):
                            b.enabled = a.enabled
                        dup.output_variables[0].fuzzy.terms.extend(fl.Activated(dup.output_variables[0].term(a.term.name), a.degree, a.implication) for a in ov.fuzzy.terms)
                        dup.rule_blocks[0].rules[0].weight = rule.weight
                    source, engine, rule = engine, dup, dup.rule_blocks[0].rules[0]
                    ctx.hit("route:rule of a duplicated engine (" + how + ")")
                    # ... whose terms are then tuned (their heights): the duplicate's rule reads the duplicate's terms as they are
                    for v in dup.variables:
                        for t in v.terms:
                            if rnd.random() < 0.5:
                                t.height = rnd.choice([0.5, 0.25, 0.75])
                    ctx.hit("event:terms of the duplicated engine tuned after the duplication")
                except Exception as ex:
                    ctx.hit("inconclusive:engine could not be duplicated:" + type(ex).__name__)
                    engine.rule_blocks.clear()
            mon.engines[key] = engine
            envname = ENVIRONMENTS[(i // 12) % len(ENVIRONMENTS)] if i % 12 == 5 else None
            rows = E.rows(rnd, dict(inputs=spec_inputs), 6)
            for k, row in enumerate(rows):
                if source is not None:
                    for v in source.input_variables:
                        v.value = rnd.choice([nan, v.minimum, v.maximum, rnd.uniform(v.minimum, v.maximum)])
                if k == 3:
                    arr = np.array(rows, dtype=float)
                    for j, v in enumerate(engine.input_variables):
                        v.value = arr[:, j]
                elif k == 4:
                    # a grid of values per variable: a 2 x 3 block, or a column
                    arr = np.array(rows, dtype=float)
                    block = rnd.choice([(2, 3), (3, 2), (6, 1), (1, 6)])
                    for j, v in enumerate(engine.input_variables):
                        v.value = arr[:, j].reshape(block)
                    ctx.hit("input:2-D block of values per variable")
                else:
                    for v, x in zip(engine.input_variables, row):
                        v.value = x
                with hostile(fl, envname, ctx):
                    try:
                        rule.activate_with(conj, disj)
                    except Exception:
                        pass
                # the degrees an earlier evaluation handed out stay what they were
                held.check("a later evaluation of the rule")
                held.keep("Rule.activation_degree", rule.activation_degree)
                if k == 3:
                    # a second batch of the same size straight after the first
                    arr = np.array(rows[::-1], dtype=float)
                    for j, v in enumerate(engine.input_variables):
                        v.value = arr[:, j]
                    try:
                        rule.activate_with(conj, disj)
                    except Exception:
                        pass
                    held.check("a second batch of the same size")
                    held.keep("Rule.activation_degree", rule.activation_degree)
                    ctx.hit("event:two batches of the same size in a row")
            held.clear()
            # the fuzzy output an output-variable proposition reads is emptied in place and filled again with as many activations
            # as before, of other degrees (what Engine.process does between two steps): the next evaluation reads the new ones
            live_ov = engine.output_variables[0]
            if live_ov.fuzzy.terms and rule.is_loaded():
                olds = list(live_ov.fuzzy.terms)
                live_ov.fuzzy.terms.clear()
                for a in olds:
                    live_ov.fuzzy.terms.append(fl.Activated(a.term, rnd.choice([0.0, 1.0, 0.5, rnd.random()]), a.implication))
                ctx.hit("event:fuzzy output emptied and refilled in place between two evaluations")
                for v, x in zip(engine.input_variables, rows[0]):
                    v.value = x
                try:
                    rule.activate_with(conj, disj)
                except Exception:
                    pass
            # a term of an input variable is replaced by a new object of the same name (another height) and the rule is loaded again:
            # the rule is about the term the variable holds now
            if i % 3 == 2 and rule.is_loaded():
                for v in engine.input_variables:
                    if v.terms:
                        k = rnd.randrange(len(v.terms))
                        fresh_term = copy.copy(v.terms[k])
                        fresh_term.height = rnd.choice([0.5, 0.25, 0.125])
                        v.terms[k] = fresh_term
                try:
                    rule.load(engine)
                    for v, x in zip(engine.input_variables, rows[1]):
                        v.value = x
                    rule.activate_with(conj, disj)
                    ctx.hit("event:term replaced by a same-named object, rule loaded again")
                except Exception:
                    pass
            # the loaded expression is edited after it was evaluated: the hedges of a proposition reordered / replaced in place (the
            # list keeps its length); the next evaluation reads the hedges as they are now
            live = live_propositions(fl, rule.antecedent.expression)
            flat = tree_propositions(mon.expected.get(key, ("x",)))
            editable = [(p, t) for p, t in zip(live, flat) if len(t[2]) >= 2 and "any" not in t[2] and len(set(t[2])) > 1] if len(live) == len(flat) else []
            if editable and rule.antecedent.is_loaded():
                prop, node = rnd.choice(editable)
                prop.hedges.reverse()
                mon.expected[key] = replace_node(mon.expected[key], node, ("prop", node[1], list(reversed(node[2])), node[3]))
                ctx.hit("event:hedges of a loaded proposition edited in place after an evaluation")
                try:
                    rule.activate_with(conj, disj)
                except Exception:
                    pass
            mon.expected.pop(key, None)
            mon.weights.pop(key, None)
            mon.engines.pop(key, None)
            if i % 6 == 0:
                # the loaded rule is given a text the engine cannot load: it must not go on evaluating the old antecedent
                v0 = spec_inputs[0]
                bad = rnd.choice([f"{v0['name']} is nosuchterm", f"nosuchvariable is {v0['terms'][0]['name']}", f"{v0['name']} is", f"( {v0['name']} is {v0['terms'][0]['name']}", f"{v0['name']} is {v0['terms'][0]['name']} and"])
                try:
                    rule.text = f"if {bad} then out0 is {spec_out['terms'][0]['name']}"
                    rule.load(engine)
                except Exception:
                    ctx.hit("event:a loaded rule is given a text that is rejected")
            if i < 3:
                ctx.sample("antecedent", {"text": rule_text, "postfix": E.tree_postfix(tree), "conjunction": tname, "disjunction": sname, "row": rows[0], "degree": rule.activation_degree})
        probe.report(ctx)
        reach.report(ctx)
    ctx.require("piece:weight written with more than three decimals", "workload:conjunction given as a function", "workload:disjunction given as a function")
    ctx.require("event:term replaced by a same-named object, rule loaded again", "event:terms of the duplicated engine tuned after the duplication")
    ctx.require("event:two batches of the same size in a row", "event:fuzzy output emptied and refilled in place between two evaluations", "law:values handed out earlier are left alone", *[f"environment:{e}" for e in ENVIRONMENTS])
    ctx.require("hook:Rule.activate_with", "hook:Antecedent.load", "compare:degree (generator tree)", "compare:postfix (generator tree)", "discriminates:swapped precedence", "discriminates:right associativity", "discriminates:hedge order", "piece:any", "piece:disabled variable", "piece:output variable proposition", "piece:weight", "shape:mixes and/or", "event:rule object reused for another text", "event:a loaded rule is given a text that is rejected", "shape:chain of more than 32 operands", "event:loaded rule given another text and loaded again through its rule block", "event:fuzzy output holds an activation of an equal-named copy of a term", "event:hedges of a loaded proposition edited in place after an evaluation", "route:rule of a duplicated engine (copy)", "route:rule of a duplicated engine (deepcopy)", "route:rule of a duplicated engine (fll)", "input:2-D block of values per variable")


def passive(ctx, fl, probe):
    """attach this property's always-on monitor to a foreign workload (the repository's test-suite, see vf/pytest_plugin.py)"""
    mon = AntecedentMonitor(ctx, fl)
    mon.install(probe)
    return None
