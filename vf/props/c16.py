"""C16 — Malformed rule and FLL text is rejected cleanly, never accepted or crashed on.

Deciding step: monitors on Rule.parse / Rule.load / Antecedent.load / Consequent.load / RuleBlock.load_rules and
FllImporter.from_string classify every exit: a rejection must be a SyntaxError, ValueError or KeyError (RuntimeError
only from RuleBlock.load_rules, which wraps the per-rule errors) and must leave the rule not loaded; an acceptance must
be exportable and the loaded rule evaluable.  The workload feeds token-level mutants of valid rules and FLL documents
and grammar-generated rules with exactly one injected error of a listed class, none of which may be accepted."""
from __future__ import annotations

import numpy as np

from ..core import import_library
from ..gen import engines as E
from ..gen import mutate as M
from ..env import ENVIRONMENTS, excusable, hostile
from ..probe import Probe, Reach, plain_function
from . import c08

WORKERS = {"quick": 1, "thorough": 16}
ALLOWED = (SyntaxError, ValueError, KeyError)


class RejectionMonitor:
    def __init__(self, ctx, fl):
        self.ctx, self.fl = ctx, fl

    def install(self, probe):
        fl = self.fl
        probe.wrap(fl.Rule, "parse", after=self._exit("Rule.parse"))
        probe.wrap(fl.Rule, "load", after=self._after_rule_load)
        probe.wrap(fl.Antecedent, "load", after=self._exit("Antecedent.load"))
        probe.wrap(fl.Consequent, "load", after=self._exit("Consequent.load"))
        probe.wrap(fl.RuleBlock, "load_rules", after=self._after_load_rules)
        probe.wrap(fl.FllImporter, "from_string", after=self._after_import)

    def classify(self, where, exc, text):
        ctx = self.ctx
        ctx.evaluated()
        if exc is None:
            ctx.hit(f"exit:{where}:accepted")
            return
        if isinstance(exc, ALLOWED):
            ctx.hit(f"exit:{where}:rejected:{type(exc).__name__}")
            ctx.nontrivial(where, type(exc).__name__, text)
        else:
            ctx.violation(f"{where} fails with an internal error ({type(exc).__name__}) instead of a syntax, value or lookup error", {"text": text, "error": repr(exc)[:300]}, "SyntaxError/ValueError/KeyError", repr(exc)[:300])

    def _exit(self, where):
        def after(args, kwargs, token, result, exc):
            obj = args[0]
            text = args[1] if where == "Rule.parse" and len(args) > 1 else getattr(obj, "text", "")
            self.classify(where, exc, text)

        return after

    def _after_rule_load(self, args, kwargs, token, result, exc):
        ctx, fl, rule = self.ctx, self.fl, args[0]
        text = rule.text
        self.classify("Rule.load", exc, text)
        if exc is not None:
            if rule.is_loaded():
                ctx.violation("a rule reports loaded after a failed load", {"text": text, "error": repr(exc)[:200]}, False, True)
            return
        if not rule.is_loaded():
            ctx.violation("a rule does not report loaded after a successful load", {"text": text}, True, False)
            return
        # an accepted rule is about terms of its own variables: whatever the names resolve to, a proposition never pairs a
        # variable with a term that variable does not have (that would be an unknown name accepted)
        props = []
        self.propositions(rule.antecedent.expression, props)
        props += list(rule.consequent.conclusions)
        for pr in props:
            ctx.hit("compare:accepted proposition binds a term of its variable")
            if pr.variable is not None and pr.term is not None and not any(t is pr.term for t in pr.variable.terms):
                ctx.violation("an accepted rule pairs a variable with a term that variable does not have", {"text": text[:300], "variable": pr.variable.name, "term": pr.term.name}, [t.name for t in pr.variable.terms], pr.term.name)
                return
        # an accepted rule can be exported again and evaluated
        try:
            str(rule)
            repr(rule)
            rule.antecedent.postfix()
        except Exception as ex:
            mech = f"an accepted rule cannot be exported ({type(ex).__name__})"
            if isinstance(ex, RecursionError):
                mech = "an accepted rule cannot be exported or evaluated (RecursionError)"  # one defect, whichever walk trips first
            ctx.violation(mech, {"text": text[:300], "error": repr(ex)[:200]}, "text", repr(ex)[:200])
            return
        outs = {}
        for c in rule.consequent.conclusions:
            if c.variable is not None and hasattr(c.variable, "fuzzy"):
                outs[id(c.variable)] = (c.variable, len(c.variable.fuzzy.terms))
        try:
            rule.activate_with(fl.Minimum(), fl.Maximum())
            rule.trigger(fl.Minimum())
            ctx.hit("accepted rule evaluated")
            # ... whatever kind of number the input variables hold: a Python int, a plain list, an integer array
            ins = {}
            self.inputs_of(rule.antecedent.expression, ins)
            saved = {k: v.value for k, v in ins.items()}
            try:
                for form, make in (("python int", lambda v: 1), ("list", lambda v: [0.25, 0.75]), ("integer array", lambda v: np.array([0, 1, 2]))):
                    for v in ins.values():
                        v.value = make(v)
                    rule.activate_with(fl.Minimum(), fl.Maximum())
                    ctx.hit("accepted rule evaluated on " + form + " values")
            finally:
                for k, v in ins.items():
                    v.value = saved[k]
        except Exception as ex:
            mech = f"an accepted rule cannot be evaluated ({type(ex).__name__})"
            if isinstance(ex, RecursionError):
                mech = "an accepted rule cannot be exported or evaluated (RecursionError)"
            if isinstance(ex, ValueError) and ("expected xy to contain coordinate pairs" in str(ex) or "coefficients (one for each input variable" in str(ex)):
                mech = "an accepted rule cannot be evaluated: a term imported without its parameters (Discrete without pairs, Linear without coefficients) raises ValueError at evaluation"
            ctx.violation(mech, {"text": text, "error": repr(ex)[:300]}, "a degree", repr(ex)[:300])
        finally:
            for v, n in outs.values():
                del v.fuzzy.terms[n:]
            rule.deactivate()

    def propositions(self, node, out, depth=0):
        fl = self.fl
        stack = [node]
        while stack and len(out) < 4000:
            n = stack.pop()
            if isinstance(n, fl.Proposition):
                out.append(n)
            elif isinstance(n, fl.Operator):
                stack.append(n.left)
                stack.append(n.right)

    def inputs_of(self, node, out):
        fl = self.fl
        if isinstance(node, fl.Proposition):
            if isinstance(node.variable, fl.InputVariable):
                out[id(node.variable)] = node.variable
        elif isinstance(node, fl.Operator):
            self.inputs_of(node.left, out)
            self.inputs_of(node.right, out)

    def _after_load_rules(self, args, kwargs, token, result, exc):
        ctx, block = self.ctx, args[0]
        ctx.evaluated()
        if exc is None:
            ctx.hit("exit:RuleBlock.load_rules:accepted")
            if not all(r.is_loaded() for r in block.rules):
                ctx.violation("RuleBlock.load_rules returns normally although a rule is not loaded", {"rules": [r.text for r in block.rules if not r.is_loaded()]}, "RuntimeError", "returned")
        elif isinstance(exc, RuntimeError):
            ctx.hit("exit:RuleBlock.load_rules:rejected:RuntimeError(wrapper)")
        else:
            ctx.violation(f"RuleBlock.load_rules fails with {type(exc).__name__}", {"error": repr(exc)[:300]}, "RuntimeError collecting the per-rule errors", repr(exc)[:300])

    def _after_import(self, args, kwargs, token, result, exc):
        ctx, fl = self.ctx, self.fl
        text = args[1]
        self.classify("FllImporter.from_string", exc, text[:2000])
        # a text is accepted or rejected for what it says, not for what the importer object has read before
        used = args[0]
        try:
            fresh, fresh_exc = type(used)(separator=used.separator).from_string(text), None
        except Exception as ex:
            fresh, fresh_exc = None, ex
        ctx.hit("compare:used importer vs new importer")
        if (exc is None) != (fresh_exc is None):
            ctx.violation("an importer that has been used before accepts / rejects a text that a new importer rejects / accepts", {"text": text[:1500]}, repr(fresh_exc)[:200] if fresh_exc else "accepted", repr(exc)[:200] if exc else "accepted")
            return
        if exc is not None:
            return
        try:
            if fl.FllExporter().to_string(result) != fl.FllExporter().to_string(fresh):
                ctx.violation("an importer that has been used before imports another engine from a text than a new importer", {"text": text[:1500]}, fl.FllExporter().to_string(fresh)[:600], fl.FllExporter().to_string(result)[:600])
                return
        except Exception:
            pass
        try:
            fl.FllExporter().to_string(result)
            repr(result)
            ctx.hit("accepted document exported")
        except Exception as ex:
            ctx.violation(f"an accepted FLL document cannot be exported again ({type(ex).__name__})", {"text": text[:2000], "error": repr(ex)[:200]}, "text", repr(ex)[:200])
        for rb in result.rule_blocks:
            for rule in rb.rules:
                if not rule.is_loaded():
                    ctx.violation("an imported document contains a rule that is not loaded", {"text": text[:2000], "rule": rule.text}, True, False)


def spaced_rule(rnd, spec):
    """a grammatical rule of the engine with whitespace separated tokens: (text, tree)"""
    avars = list(spec["inputs"]) + (list(spec["outputs"]) if rnd.random() < 0.2 else [])
    tree = E.gen_tree(rnd, avars, rnd.randint(0, 3))
    concl = [E.gen_prop(rnd, o, max_hedges=2, allow_any=False) for o in rnd.sample(spec["outputs"], rnd.randint(1, len(spec["outputs"])))]
    w = E.gen_weight(rnd, 3)
    return "if " + E.tree_text(rnd, tree, redundant=rnd.choice([0, 0.3]), tight=0.0) + " then " + " and ".join(E.prop_text(c) for c in concl) + E.weight_text(w, 3)


def run(ctx):
    fl = import_library()
    nrule = ctx.scale(3000, 1_000_000)
    nfll = ctx.scale(500, 100_000)
    nclass = ctx.scale(300, 60_000)
    ctx.rule = (
        f"every Rule.parse/load, Antecedent.load, Consequent.load, RuleBlock.load_rules and FllImporter.from_string exit observed. Workload: {nrule} "
        f"mutants of valid rules and {nfll} mutants of valid FLL documents (token deletion, duplication, substitution of keywords/names/numbers/"
        f"parentheses, truncation at token boundaries, reordering, line edits) plus {nclass} grammar-generated rules per error class with exactly one "
        "injected error (missing if/is/then/connective/weight value/variable/term/operand, unknown variable/term/hedge, parenthesis added/removed, non-numeric "
        "weight, trailing token). distinct_nontrivial = distinct (site, exception class, text) rejections"
    )
    ctx.assumptions += ["accepted mutants that are ungrammatical but not of a listed class (eg `( )` or `a ( is ) x`) are counted, not judged", "non-numeric weights are literals Python's float() rejects (`1_0` and `nan` are numeric for float())"]
    funcs = {"Rule.parse": fl.Rule.parse, "Antecedent.load": fl.Antecedent.load, "Consequent.load": fl.Consequent.load, "RuleBlock.load_rules": fl.RuleBlock.load_rules, "FllImporter.engine": fl.FllImporter.engine, "FllImporter.extract_key_value": fl.FllImporter.extract_key_value, "Function.infix_to_postfix": plain_function(fl.Function, "infix_to_postfix")}
    ctx.excuse = lambda mechanism, observed, note: excusable(observed)
    with Reach(funcs) as reach, Probe() as probe:
        mon = RejectionMonitor(ctx, fl)
        mon.install(probe)
        shared_importer = fl.FllImporter()
        per_engine = 25
        for i, rnd in ctx.cases("rules", max(1, nrule // per_engine)):
            spec = E.gen_engine(rnd, activations=("General",), d=3, max_rules=3)
            engine = E.build(fl, spec)
            names = [v["name"] for v in spec["inputs"] + spec["outputs"]] + [t["name"] for v in spec["inputs"] + spec["outputs"] for t in v["terms"]]
            envname = ENVIRONMENTS[(i // 3) % len(ENVIRONMENTS)] if i % 3 == 1 else None
            for k in range(per_engine):
                base = spaced_rule(rnd, spec)
                kind, text = M.mutate_rule(rnd, base, names)
                with hostile(fl, envname, ctx):
                    try:
                        made = fl.Rule.create(text, engine)
                        ctx.hit("mutant accepted")
                        ctx.evaluated()
                        if not made.is_loaded():
                            ctx.violation("a rule created for an engine is returned unloaded without an error", {"text": text}, "loaded or an error", "unloaded")
                    except Exception:
                        ctx.hit("mutant rejected")
                if k % 6 == 0:
                    # the same texts for engines that cannot hold them (no components at all; no output variables): nothing to
                    # load the rule with, so it is refused - never handed back as if all were well
                    for what, other in (("an engine without components", fl.Engine("empty")), ("an engine without output variables", fl.Engine("inputs-only", input_variables=[fl.InputVariable(v.name, terms=list(v.terms)) for v in engine.input_variables]))):
                        for t in (base, text):
                            ctx.evaluated()
                            try:
                                made = fl.Rule.create(t, other)
                                if not made.is_loaded():
                                    ctx.violation("a rule created for an engine is returned unloaded without an error", {"text": t, "engine": what}, "an error", "unloaded")
                                else:
                                    ctx.violation(f"a rule over variables that do not exist is accepted ({what})", {"text": t}, "an error", "loaded")
                            except (SyntaxError, ValueError, LookupError, RuntimeError):
                                ctx.hit("refused for " + what)
                if k % 8 == 1:
                    # the engine is edited after the rule was loaded - a term of the antecedent renamed - and the rule is loaded again
                    # as it stands (no unload, same text): the name is unknown now, the rule is refused
                    try:
                        again = fl.Rule.create(base, engine)
                        props = [t for v in engine.input_variables for t in v.terms if f" {t.name} " in f" {again.antecedent.text} ".replace("(", " ").replace(")", " ")]
                        if props and again.is_loaded():
                            term = props[0]
                            old = term.name
                            term.name = old + "_renamed"
                            try:
                                again.load(engine)
                                ctx.evaluated()
                                ctx.violation("a rule over a term name that no longer exists is accepted when loaded again", {"text": base, "renamed": old}, "an error", "loaded")
                            except (SyntaxError, ValueError, LookupError):
                                ctx.hit("event:reload after a term was renamed is refused")
                                if again.is_loaded():
                                    ctx.violation("a rule reports loaded after a failed load", {"text": base, "renamed": old}, False, True)
                            finally:
                                term.name = old
                    except Exception:
                        pass
                if k % 3 == 0:  # an already loaded rule object is given the mutated text and loaded again (stale state must not survive)
                    try:
                        again = fl.Rule.create(base, engine)
                        again.parse(text)
                        again.load(engine)
                    except Exception:
                        pass
                    ctx.hit("event:reload of a loaded rule")
                if k % 5 == 0:  # the same through a rule block (per-rule errors are collected)
                    rb = fl.RuleBlock("m", conjunction=fl.Minimum(), disjunction=fl.Maximum(), implication=fl.Minimum(), activation=fl.General())
                    for t in (base, text):
                        r = fl.Rule()
                        try:
                            r.parse(t)
                            rb.rules.append(r)
                        except Exception:
                            pass
                    try:
                        rb.load_rules(engine)
                    except Exception:
                        pass
                if i < 1 and k < 3:
                    ctx.sample("rule mutant", {"base": base, "edit": kind, "mutant": text})
        # very long antecedents (a thousand propositions and more) with one error somewhere: refused with a syntax error, whatever
        # the length (no recursion over the length of the text)
        for i, rnd in ctx.cases("long antecedents", ctx.scale(4, 60)):
            spec = E.gen_engine(rnd, activations=("General",), d=3, max_rules=1, flags=False)
            engine = E.build(fl, spec)
            v = spec["inputs"][0]
            prop = f"{v['name']} is {v['terms'][0]['name']}"
            n = 1500 if i == 0 else rnd.choice([1000, 1200, 2500])
            parts = [prop] * n
            glue = [rnd.choice(["and", "or"]) if i else "and" for _ in range(n - 1)]
            where = rnd.randrange(1, n - 1)
            kind = ["good", "missing connective", "dangling connective"][i] if i < 3 else rnd.choice(["missing connective", "dangling connective", "good"])
            if kind == "missing connective":
                glue[where] = ""
            text = " ".join(x for pair in zip(parts, glue + [""]) for x in pair if x)
            if kind == "dangling connective":
                text += " and"
            out = spec["outputs"][0]
            full = f"if {text} then {out['name']} is {out['terms'][0]['name']}"
            ctx.evaluated()
            try:
                made = fl.Rule.create(full, engine)
                if kind != "good":
                    ctx.violation("a very long antecedent with a " + kind + " is accepted", {"propositions": n}, "an error", "loaded")
                else:
                    ctx.hit("long antecedent accepted")
                    str(made)
            except SyntaxError:
                ctx.hit("long antecedent refused" if kind != "good" else "long good antecedent refused")
                if kind == "good":
                    ctx.violation("a very long grammatical antecedent is refused", {"propositions": n}, "loaded", "SyntaxError")
            except Exception as ex:
                ctx.violation(f"a very long antecedent makes the parser fail with {type(ex).__name__} instead of a syntax error", {"propositions": n, "kind": kind}, "SyntaxError", repr(ex)[:200])
        for i, rnd in ctx.cases("documents", max(1, nfll // 10)):
            spec = E.gen_engine(rnd, activations=tuple(c08.METHODS), d=3, max_rules=3, descriptions=True)
            text = fl.FllExporter().to_string(E.build(fl, spec))
            names = [v["name"] for v in spec["inputs"] + spec["outputs"]]
            for k in range(10):
                kind, bad = M.mutate_fll(rnd, text, names)
                if k % 4 == 3:
                    kind, bad = "appended component cut short", text + rnd.choice(["\nInputVariable: leftover\n  enabled: true\n  range 0.000 1.000", "\nOutputVariable: extra\n  this line has no colon", "\nRuleBlock: more\n<<<<<<< HEAD"])
                if k % 4 == 1:
                    # the keyword `none` (or nothing at all) where the class of a term, a defuzzifier or an activation method with
                    # parameters is expected: there is no such class
                    import re

                    what = rnd.choice(["term", "defuzzifier", "activation"])
                    pattern = {"term": r"(term: \S+) \S+( .*)?$", "defuzzifier": r"(defuzzifier:) \S+( .*)?$", "activation": r"(activation:) \S+( .*)?$"}[what]
                    word = rnd.choice(["none", "none", "None", "null"])
                    kind, bad = f"class of a {what} replaced by `{word}`", re.sub(pattern, lambda m: f"{m.group(1)} {word}{m.group(2) or rnd.choice([' 3', ' 0.000 0.500 1.000', ' 100'])}", text, count=1, flags=re.M)
                    ctx.hit("document:class name replaced by none")
                must_reject = None
                if k % 5 == 2:
                    import re

                    lines = text.split("\n")
                    which = ["term parameter", "output-only key in an input variable", "resolution", "term parameter"][(i + k // 5) % 4]
                    if which == "term parameter":
                        cands = [j for j, ln in enumerate(lines) if re.match(r"\s*term: \S+ (?!Function|Linear)\S+( \S+)+$", ln) and re.search(r" -?\d", ln)]
                        if cands:
                            tables = [j for j in cands if " Discrete " in lines[j]]
                            j = rnd.choice(tables if (tables and rnd.random() < 0.6) else cands)
                            toks = lines[j].split(" ")
                            nums = [q for q in range(len(toks)) if re.fullmatch(r"-?\d+\.\d+", toks[q])]
                            if nums:
                                toks[rnd.choice(nums)] = rnd.choice(["x", "abc", "1,5", "0.5.1", "--1"])
                                lines[j] = " ".join(toks)
                                must_reject = "a term parameter that is not a number"
                    elif which == "output-only key in an input variable":
                        cands = [j for j, ln in enumerate(lines) if ln.startswith("InputVariable:")]
                        if cands:
                            j = rnd.choice(cands)
                            lines.insert(j + 1, "  " + rnd.choice(["defuzzifier: Centroid 100", "default: 0.500", "lock-previous: true", "aggregation: Maximum"]))
                            must_reject = "a key of output variables inside an input variable"
                    else:
                        cands = [j for j, ln in enumerate(lines) if re.match(r"\s*defuzzifier: (Centroid|Bisector|\w+OfMaximum) \d+$", ln)]
                        if cands:
                            j = rnd.choice(cands)
                            lines[j] = re.sub(r"\d+$", rnd.choice(["inf", "-inf", "1e999", "nan", "ten"]), lines[j])
                            must_reject = "a resolution that is not an integer"
                    if must_reject:
                        kind, bad = must_reject, "\n".join(lines)
                        ctx.hit("document:" + must_reject)
                importer = shared_importer if k % 2 else fl.FllImporter()
                with hostile(fl, ENVIRONMENTS[(i // 2) % len(ENVIRONMENTS)] if i % 2 else None, ctx):
                    try:
                        importer.from_string(bad)
                        ctx.hit("document mutant accepted")
                        if must_reject:
                            ctx.evaluated()
                            ctx.violation(f"a document with {must_reject} is accepted", {"text": bad[:1500]}, "rejected", "imported")
                    except Exception:
                        ctx.hit("document mutant rejected")
                    if k % 2:
                        try:
                            importer.from_string(text)  # and the valid document with the importer that has just read the mutant
                        except Exception:
                            pass
                        ctx.hit("event:one importer object used for rejected and valid documents")
                if i < 1 and k < 2:
                    ctx.sample("document mutant", {"edit": kind, "mutant": bad[:800]})
        # an input variable and an output variable of one name (the measured and the commanded `power`) with terms of their own:
        # whichever of the two a name in a rule is taken for, an accepted proposition is about a term of that variable
        for i, rnd in ctx.cases("shared names", ctx.scale(40, 800)):
            name = rnd.choice(["power", "level", "T"])
            iv = fl.InputVariable(name, minimum=0.0, maximum=1.0, terms=[fl.Triangle("low", 0.0, 0.25, 0.5), fl.Triangle("high", 0.5, 0.75, 1.0)])
            other = fl.InputVariable("rate", minimum=0.0, maximum=1.0, terms=[fl.Ramp("up", 0.0, 1.0), fl.Ramp("low", 1.0, 0.0)])
            ov = fl.OutputVariable(name, minimum=0.0, maximum=1.0, aggregation=fl.Maximum(), defuzzifier=fl.Centroid(20), terms=[fl.Triangle("increase", 0.0, 0.5, 1.0), fl.Triangle("decrease", 0.0, 0.25, 0.5)])
            engine = fl.Engine("shared", input_variables=[iv, other], output_variables=[ov])
            texts = [f"if {name} is low then {name} is increase", f"if rate is up and {name} is high then {name} is decrease", f"if {name} is increase then {name} is decrease", f"if rate is low or {name} is not low then {name} is very increase", f"if rate is up then {name} is low", f"if {name} is any then {name} is increase"]
            for t in texts:
                for route in ("create", "parse-load", "importer"):
                    try:
                        if route == "create":
                            fl.Rule.create(t, engine)
                        elif route == "parse-load":
                            r = fl.Rule()
                            r.parse(t)
                            r.load(engine)
                        else:
                            fl.FllImporter().rule(f"rule: {t}", engine)
                        ctx.hit("shared names: rule accepted")
                    except Exception:
                        ctx.hit("shared names: rule refused")
            ctx.hit("workload:input and output variable of one name")
        # directed witnesses of parameterless terms (so that the recorded finding is exercised in every run)
        for i, rnd in ctx.cases("parameterless-terms", 4):
            cls = ["Discrete", "Linear", "Triangle", "Gaussian"][i]
            doc = f"Engine: e\nInputVariable: a\n  enabled: true\n  range: 0.000 1.000\n  term: t {cls}\nOutputVariable: o\n  range: 0.000 1.000\n  term: u Triangle 0.000 0.500 1.000\nRuleBlock: r\n  rule: if a is t then o is u\n"
            try:
                fl.FllImporter().from_string(doc)
            except Exception:
                pass
            ctx.hit(f"parameterless:{cls}")
        per = 10
        for i, rnd in ctx.cases("injected", max(1, nclass // per) * len(M.ERROR_CLASSES)):
            cls = M.ERROR_CLASSES[i % len(M.ERROR_CLASSES)]
            spec = E.gen_engine(rnd, activations=("General",), d=3, max_rules=2)
            engine = E.build(fl, spec)
            variables = [v["name"] for v in spec["inputs"] + spec["outputs"]]
            terms = [t["name"] for v in spec["inputs"] + spec["outputs"] for t in v["terms"]]
            for k in range(per):
                base = spaced_rule(rnd, spec)
                bad = M.inject(rnd, cls, base, variables, terms)
                if bad is None:
                    ctx.hit(f"injected:{cls}:not applicable")
                    continue
                ctx.hit(f"injected:{cls}")
                try:
                    fl.Rule.create(bad, engine)
                except Exception:
                    continue  # exception class judged by the monitor
                ctx.evaluated()
                ctx.violation(f"a rule with exactly one injected error is accepted ({cls})", {"rule": bad, "valid_rule": base}, "rejected", "accepted")
            if i < len(M.ERROR_CLASSES) and bad:
                ctx.sample("injected", {"class": cls, "valid": base, "broken": bad})
        probe.report(ctx)
        reach.report(ctx)
    ctx.require("document:class name replaced by none", "document:a term parameter that is not a number", "document:a key of output variables inside an input variable", "document:a resolution that is not an integer")
    ctx.require("workload:input and output variable of one name", "compare:accepted proposition binds a term of its variable", "compare:used importer vs new importer", "event:one importer object used for rejected and valid documents", *[f"environment:{e}" for e in ENVIRONMENTS])
    ctx.require("hook:Rule.parse", "hook:Rule.load", "hook:Antecedent.load", "hook:Consequent.load", "hook:RuleBlock.load_rules", "hook:FllImporter.from_string", "mutant accepted", "mutant rejected", "document mutant accepted", "document mutant rejected", "accepted rule evaluated", "accepted document exported", "event:reload of a loaded rule", "refused for an engine without components", "refused for an engine without output variables", "event:reload after a term was renamed is refused", "long antecedent refused")
    if ctx.nshards == 1:
        for cls in M.ERROR_CLASSES:
            ctx.require(f"injected:{cls}")


def passive(ctx, fl, probe):
    """attach this property's always-on monitor to a foreign workload (the repository's test-suite, see vf/pytest_plugin.py)"""
    mon = RejectionMonitor(ctx, fl)
    mon.install(probe)
    return None
