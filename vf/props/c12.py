"""C12 — Output values follow the lock-previous / default / lock-range cascade.

Deciding step: a shadow state machine attached to OutputVariable.defuzzify / clear and to every Defuzzifier.defuzzify
(to capture the raw defuzzified value before the cascade mutates it) judges value and previous_value after every call,
including calls whose defuzzifier raises.  Workload: fault enumeration over scripted defuzzified sequences."""
from __future__ import annotations

import itertools
import math

import numpy as np

from ..core import import_library
from ..env import ENVIRONMENTS, Held, excusable, hostile, observe
from ..probe import Probe, Reach, plain_function

WORKERS = {"quick": 1, "thorough": 16}
nan = math.nan


def feq(a, b):
    return (a == b) or (math.isnan(a) and math.isnan(b))


def rows(v):
    return [float(x) for x in np.atleast_1d(np.asarray(v, dtype=float)).ravel()]


def cascade(raw_rows, last, lock_previous, default, lock_range, lo, hi):
    """Reference: per-row state machine of the property statement."""
    out, cur = [], last
    for v in raw_rows:
        if math.isnan(v) and lock_previous:
            v = cur
        if math.isnan(v) and not math.isnan(default):
            v = default
        if lock_range and not math.isnan(v):
            v = min(max(v, lo), hi)
        out.append(v)
        cur = v
    return out


def all_defuzzifier_classes(fl):
    seen, todo = [], [fl.Defuzzifier]
    while todo:
        c = todo.pop()
        for s in c.__subclasses__():
            if s not in seen:
                seen.append(s)
                todo.append(s)
    return [c for c in seen if "defuzzify" in c.__dict__ and not getattr(c.__dict__["defuzzify"], "__isabstractmethod__", False)]


class CascadeMonitor:
    """Always-on: follows every OutputVariable of the process."""

    def __init__(self, ctx, fl):
        self.ctx, self.fl = ctx, fl
        self.raw = None  # raw value returned by the innermost Defuzzifier.defuzzify call (copied)
        self.raw_exc = None
        self.in_process = None

    def install(self, probe, extra_classes=()):
        fl = self.fl
        for cls in list(all_defuzzifier_classes(fl)) + [c for c in extra_classes]:
            probe.wrap(cls, "defuzzify", after=self._after_defuzzifier, label=f"{cls.__name__}.defuzzify")
        probe.wrap(fl.OutputVariable, "defuzzify", before=self._before, after=self._after)
        probe.wrap(fl.OutputVariable, "clear", after=self._after_clear)
        probe.wrap(fl.Engine, "process", before=self._before_process, after=self._after_process)

    def _before_process(self, args, kwargs):
        # "after every defuzzification": processing an engine is what defuzzifies - once per enabled output variable
        self.in_process = {id(ov): [ov, 0] for ov in args[0].output_variables if ov.enabled}
        # (what each output variable holds when processing starts: it is the "most recent value" of the defuzzification to come)
        self.held_at_entry = {id(ov): (np.array(ov.value, dtype=float, copy=True), np.array(ov.previous_value, dtype=float, copy=True)) for ov in args[0].output_variables}
        return self.in_process

    def _after_process(self, args, kwargs, token, result, exc):
        self.in_process = None
        if exc is not None or token is None:
            return
        self.ctx.hit("event:Engine.process observed")
        for ov, n in token.values():
            self.ctx.evaluated()
            if n != 1 and ov.enabled and type(ov) is self.fl.OutputVariable and "defuzzify" not in vars(ov):
                self.ctx.violation(f"Engine.process defuzzified an enabled output variable {n} times instead of once (its value and previous value do not follow the cascade)", {"variable": ov.name, "fuzzy_output_terms": len(ov.fuzzy.terms), "value": ov.value}, 1, n)

    def _after_defuzzifier(self, args, kwargs, token, result, exc):
        if exc is not None:
            self.raw, self.raw_exc = None, exc
        else:
            self.raw, self.raw_exc = (np.array(result, dtype=float, copy=True) if result is not None else None), None
            self.raw_type = type(result).__name__
            self.raw_object = result
            self.ctx.hit(f"raw_type:{type(result).__name__}{'' if not isinstance(result, np.ndarray) else result.ndim}")

    def _before(self, args, kwargs):
        ov = args[0]
        self.raw, self.raw_exc = None, None
        if getattr(self, "in_process", None) and id(ov) in self.in_process:
            self.in_process[id(ov)][1] += 1
            entry = getattr(self, "held_at_entry", {}).get(id(ov))
            if entry is not None and self.in_process[id(ov)][1] == 1:
                now = np.asarray(ov.value, dtype=float)
                self.ctx.evaluated()
                self.ctx.hit("compare:value held from the start of Engine.process to the defuzzification")
                if now.shape != entry[0].shape or not bool(np.all((now == entry[0]) | (np.isnan(now) & np.isnan(entry[0])))):
                    self.ctx.violation("Engine.process changes the value an output variable holds before it defuzzifies it (the most recent value is lost)", {"variable": ov.name}, entry[0], now)
        return {
            "enabled": ov.enabled,
            "value": np.array(ov.value, dtype=float, copy=True),
            "previous": np.array(ov.previous_value, dtype=float, copy=True),
            "terms": list(ov.fuzzy.terms),
            "cfg": (bool(ov.lock_previous), float(ov.default_value), bool(ov.lock_range), float(ov.minimum), float(ov.maximum)),
            "has_defuzzifier": ov.defuzzifier is not None,
        }

    def _after(self, args, kwargs, st, result, exc):
        ctx, ov = self.ctx, args[0]
        if st is None:
            return
        lp, default, lr, lo, hi = st["cfg"]
        setting = f"lp={int(lp)},default={'nan' if math.isnan(default) else ('in' if lo <= default <= hi else 'out')},lr={int(lr)}"
        case = {"variable": ov.name, "setting": setting, "range": [lo, hi], "default": default, "value_before": st["value"], "previous_before": st["previous"], "raw": self.raw}
        now_value = np.array(ov.value, dtype=float, copy=True)
        now_prev = np.array(ov.previous_value, dtype=float, copy=True)
        ctx.evaluated()

        def unchanged(what):
            ok = True
            if rows(now_value) != rows(st["value"]) and not all(feq(a, b) for a, b in itertools.zip_longest(rows(now_value), rows(st["value"]), fillvalue=0.5)):
                ctx.violation(f"{what}: value changed", case, st["value"], now_value)
                ok = False
            if not all(feq(a, b) for a, b in itertools.zip_longest(rows(now_prev), rows(st["previous"]), fillvalue=0.5)):
                ctx.violation(f"{what}: previous value changed", case, st["previous"], now_prev)
                ok = False
            if len(ov.fuzzy.terms) != len(st["terms"]) or any(a is not b for a, b in zip(ov.fuzzy.terms, st["terms"])):
                ctx.violation(f"{what}: fuzzy output changed", case, len(st["terms"]), len(ov.fuzzy.terms))
                ok = False
            return ok

        if not st["enabled"]:
            ctx.hit("event:disabled")
            if exc is not None:
                ctx.violation("disabled variable: defuzzify raised", case, "no effect", repr(exc))
            unchanged("disabled variable")
            return
        if exc is not None:
            if self.raw_exc is not None or not st["has_defuzzifier"]:
                ctx.hit("event:defuzzifier_raised" if st["has_defuzzifier"] else "event:no_defuzzifier")
                if unchanged("defuzzifier raised"):
                    ctx.nontrivial("fault", setting, tuple(rows(st["value"])), tuple(rows(st["previous"])))
            elif self.raw is not None:
                # the defuzzifier returned a value and the cascade itself failed
                ctx.violation(f"cascade raises {type(exc).__name__} on a defuzzified value of type {self.raw_type}", dict(case, error=repr(exc)), "value stored", repr(exc))
            else:
                ctx.hit("event:raise_without_defuzzifier_call")
            return
        if self.raw_exc is not None:
            # the defuzzifier raised and the variable carried on regardless: nothing may have changed
            ctx.hit("event:defuzzifier raised and the variable returned normally")
            unchanged(f"defuzzifier raised {type(self.raw_exc).__name__} (not propagated)")
            return
        if self.raw is None:
            ctx.hit("skipped:raw defuzzified value not observed (defuzzifier class unknown to the hooks)")
            return
        # the object the defuzzifier returned belongs to the defuzzifier: the cascade must work on its own copy
        obj = getattr(self, "raw_object", None)
        if isinstance(obj, np.ndarray):
            ctx.hit("law:defuzzifier result left untouched")
            now = np.asarray(obj, dtype=float)
            if now.shape != self.raw.shape or not bool(np.all((now == self.raw) | (np.isnan(now) & np.isnan(self.raw)))):
                ctx.violation("the cascade modifies the array returned by the defuzzifier in place", dict(case, returned=self.raw, now=now), self.raw, now)
            elif isinstance(ov.value, np.ndarray) and np.shares_memory(ov.value, obj):
                ctx.violation("the output value shares memory with the array returned by the defuzzifier", case, "a copy", "a view")
        raw_rows = rows(self.raw)
        # (a variable that holds an empty batch holds no value: the most recent value is then the one recorded before it)
        held = rows(st["value"])
        last = held[-1] if held else float(np.asarray(st["previous"], dtype=float).ravel()[-1])
        if not held:
            ctx.hit("piece:defuzzified while holding an empty batch")
        if not raw_rows:
            ctx.hit("piece:empty batch defuzzified")
        exp = cascade(raw_rows, last, lp, default, lr, lo, hi)
        got = rows(now_value)
        ctx.hit(f"event:defuzzified:{'batch' if len(raw_rows) > 1 else 'scalar'}")
        ctx.hit(f"setting:{setting}")
        for r, e in zip(raw_rows, exp):
            if math.isnan(r):
                ctx.hit("piece:nan->" + ("nan" if math.isnan(e) else "previous" if lp and not math.isnan(last if r is raw_rows[0] else 0.0) else "filled"))
            elif e != r:
                ctx.hit("piece:clipped")
            else:
                ctx.hit("piece:kept")
        if len(got) != len(exp) or not all(feq(a, b) for a, b in zip(got, exp)):
            # name the mechanism by the first differing row
            k = next((i for i, (a, b) in enumerate(itertools.zip_longest(got, exp, fillvalue=0.123)) if not feq(a, b)), 0)
            why = "row count" if len(got) != len(exp) else ("NaN row" if math.isnan(raw_rows[k]) else "non-NaN row")
            ctx.violation(f"value differs from the cascade ({why})", dict(case, row=k), exp, got)
        if np.ndim(now_prev) != 0 or not feq(float(now_prev), last):
            ctx.violation("previous value is not the last value held before the call", case, last, now_prev)
        if any(math.isnan(r) for r in raw_rows) or any(e != r for r, e in zip(raw_rows, exp) if not math.isnan(r)):
            ctx.nontrivial(setting, tuple(raw_rows), last)

    def _after_clear(self, args, kwargs, token, result, exc):
        ctx, ov = self.ctx, args[0]
        ctx.evaluated()
        ctx.hit("event:clear")
        if exc is not None:
            ctx.violation("clear() raises", {"variable": ov.name}, None, repr(exc))
            return
        if not (np.ndim(ov.value) == 0 and math.isnan(float(ov.value)) and math.isnan(float(ov.previous_value)) and len(ov.fuzzy.terms) == 0):
            ctx.violation("clear() does not reset value, previous value and fuzzy output", {"variable": ov.name}, "nan, nan, []", [ov.value, ov.previous_value, len(ov.fuzzy.terms)])


# ---- workload ------------------------------------------------------------------------------------------------------------


def make_scripted(fl):
    class Scripted(fl.Defuzzifier):
        """Returns prescribed chunks, or raises where the script says so."""

        def __init__(self):
            self.queue = []
            self.keep = False
            self.buffer = None

        def defuzzify(self, term, minimum=nan, maximum=nan):
            v = self.queue.pop(0)
            if isinstance(v, Exception):
                raise v
            if self.keep and isinstance(v, np.ndarray):
                # reuse the output buffer when the shape allows (as a caching defuzzifier would)
                if self.buffer is not None and self.buffer.shape == v.shape:
                    self.buffer[...] = v
                else:
                    self.buffer = v
                return self.buffer
            return v

    return Scripted


def splits(n):
    for cuts in itertools.product([0, 1], repeat=n - 1):
        parts, cur = [], [0]
        for i, c in enumerate(cuts, 1):
            if c:
                parts.append(cur)
                cur = [i]
            else:
                cur.append(i)
        parts.append(cur)
        yield parts


FORMS = ["float64", "0d", "1d", "pyfloat"]


def chunk_value(chunk, form):
    if len(chunk) != 1 or form == "1d":
        return np.array(chunk, dtype=float)
    if form == "float64":
        return np.float64(chunk[0])
    if form == "0d":
        return np.array(chunk[0], dtype=float)
    return float(chunk[0])


def run(ctx):
    fl = import_library()
    ctx.level = "fault_enumeration"
    L = ctx.scale(3, 6)
    ctx.rule = (
        f"exhaustive: every sequence over {{NaN, in range, below, above}} of length <= {L} x every split into successive calls/batches x 12 "
        "settings (lock-previous x default in {NaN, in, out of range} x lock-range) x result forms (np.float64, 0-d, 1-d array, Python float) x "
        "a defuzzifier failure injected at every call index x clear() between calls; plus random sequences of length <= 12 and real engines "
        "whose rules fire for no row. distinct_nontrivial = distinct (setting, raw rows, last value) with a NaN or clipped row, plus distinct "
        "fault states"
    )
    ctx.assumptions += ["raw defuzzified value = what Defuzzifier.defuzzify returned (copied at return)", "exact comparison (the cascade only copies and clips)"]
    Scripted = make_scripted(fl)
    OV = fl.OutputVariable
    funcs = {"OutputVariable.defuzzify": OV.defuzzify, "OutputVariable.clear": OV.clear, "Variable.value.setter": plain_function(fl.Variable, "value")}
    ctx.excuse = lambda mechanism, observed, note: excusable(observed)
    with Reach(funcs) as reach, Probe() as probe:
        mon = CascadeMonitor(ctx, fl)
        mon.install(probe, extra_classes=[Scripted])
        alpha = [nan, 0.5, -0.7, 1.7]
        cfgs = [(lp, d, lr) for lp in (False, True) for d in (nan, 0.25, 2.5) for lr in (False, True)]
        seqs = [s for n in range(1, L + 1) for s in itertools.product(alpha, repeat=n)]
        for i, rnd in ctx.cases("exhaustive", len(seqs)):
            seq = seqs[i]
            for parts in splits(len(seq)):
                for cfg in cfgs:
                    for form in FORMS if len(seq) <= 3 else [FORMS[(i + len(parts)) % 4]]:
                        for fail_at in [None] + (list(range(len(parts))) if len(seq) <= 3 or rnd.random() < 0.2 else []):
                            for clear_at in [None] + ([rnd.randrange(len(parts))] if len(parts) > 1 else []):
                                d = Scripted()
                                lo_, hi_ = [(0.0, 1.0), (0.0, 1.0), (0.0, math.inf), (-math.inf, 1.0)][(i + len(parts) + FORMS.index(form)) % 4]
                                ov = OV("o", minimum=lo_, maximum=hi_, lock_previous=cfg[0], default_value=cfg[1], lock_range=cfg[2], defuzzifier=d)
                                for k, p in enumerate(parts):
                                    if clear_at == k:
                                        ov.clear()
                                    if fail_at == k:
                                        d.queue = [ZeroDivisionError("injected")]
                                        try:
                                            ov.defuzzify()
                                        except ZeroDivisionError:
                                            pass
                                    d.queue = [chunk_value([seq[j] for j in p], form)]
                                    try:
                                        ov.defuzzify()
                                    except Exception:
                                        pass  # judged by the monitor
            if i % 50 == 0:
                ctx.sample("exhaustive", {"sequence": list(seq), "splits": "all", "settings": "all 12", "forms": FORMS})
        # disabled variable and missing defuzzifier
        for i, rnd in ctx.cases("disabled", 24):
            d = Scripted()
            cfg = cfgs[i % 12]
            ov = OV("o", minimum=0.0, maximum=1.0, lock_previous=cfg[0], default_value=cfg[1], lock_range=cfg[2], defuzzifier=d)
            d.queue = [np.array([0.5, nan])]
            ov.defuzzify()
            ov.enabled = False
            d.queue = [np.array([0.1])]
            ov.defuzzify()
            ov.enabled = True
            ov.defuzzifier = None
            try:
                ov.defuzzify()
            except ValueError:
                pass
        # random longer histories
        for i, rnd in ctx.cases("random", ctx.scale(300, 20_000)):
            cfg = rnd.choice(cfgs)
            lo = rnd.choice([0.0, -2.5, 1.0])
            hi = lo + rnd.choice([1.0, 0.5, 10.0])
            default = cfg[1] if math.isnan(cfg[1]) else rnd.choice([lo + 0.25 * (hi - lo), hi + 1.5, lo - 0.5, lo, hi, math.inf, -math.inf])
            if math.isinf(default):
                ctx.hit("default:infinite")
            shape = rnd.choice(["finite", "finite", "left-open", "right-open", "unbounded", "mixed magnitudes"])
            if shape in ("left-open", "unbounded"):
                lo = -math.inf
            if shape in ("right-open", "unbounded"):
                hi = math.inf
            if shape == "mixed magnitudes":
                # a finite range whose bounds differ by many orders of magnitude (timestamps, counters): values just outside the
                # small bound are still outside
                lo, hi = rnd.choice([(0.0, 1e17), (0.0, 2e18), (-1.0, 4e18), (-1e19, 2.5), (0.0, 1e300), (-1e300, 0.5), (1e-9, 1e12)])
                if rnd.random() < 0.7:
                    cfg = (cfg[0], cfg[1], True)
                if not math.isnan(cfg[1]):
                    default = rnd.choice([lo - 42.0 if abs(lo) < 1e9 else hi + 42.0, default])
            ctx.hit(f"range:{shape}")
            d = Scripted()
            d.keep = rnd.random() < 0.3  # a defuzzifier that keeps the array it returned and returns the same object again
            ov = OV("o", minimum=lo, maximum=hi, lock_previous=cfg[0], default_value=default, lock_range=cfg[2], defuzzifier=d)
            hist = []
            for _ in range(rnd.randrange(1, 6)):
                c = rnd.random()
                if c < 0.1:
                    ov.clear()
                    hist.append("clear")
                    continue
                if c < 0.18:
                    # the variable is edited between two defuzzifications: a value assigned while lock-range is off and the lock
                    # switched on afterwards, or the range narrowed around the value it holds - the held value is what it is
                    edit = rnd.choice(["value then lock", "narrow range", "toggle lock-previous", "default", "unlock range", "widen range", "unlock range"])
                    held_before = np.array(ov.value, dtype=float, copy=True)
                    prev_before = np.array(ov.previous_value, dtype=float, copy=True)
                    if edit == "value then lock":
                        was = ov.lock_range
                        ov.lock_range = False
                        ov.value = rnd.choice([(hi if math.isfinite(hi) else 3.0) + 2.0, (lo if math.isfinite(lo) else -3.0) - 2.0, np.array([0.25, (hi if math.isfinite(hi) else 3.0) + 1.0])])
                        ov.lock_range = rnd.choice([True, was])
                    elif edit == "narrow range" and math.isfinite(lo) and math.isfinite(hi):
                        ov.maximum = lo + 0.5 * (hi - lo)
                    elif edit == "unlock range":
                        ov.lock_range = False
                    elif edit == "widen range":
                        if math.isfinite(lo) and math.isfinite(hi):
                            ov.minimum, ov.maximum = lo - 5.0, hi + 5.0
                    elif edit == "toggle lock-previous":
                        ov.lock_previous = not ov.lock_previous
                    else:
                        ov.default_value = rnd.choice([nan, lo if math.isfinite(lo) else 0.0, (hi if math.isfinite(hi) else 1.0) + 1.0])
                    ctx.hit("event:variable edited between defuzzifications")
                    if edit in ("narrow range", "toggle lock-previous", "default", "unlock range", "widen range"):
                        # the settings say how the *next* defuzzified value is treated: the value held, and the recorded previous
                        # value, are what they were
                        ctx.evaluated()
                        now, prev_now = np.asarray(ov.value, dtype=float), np.asarray(ov.previous_value, dtype=float)
                        if now.shape != held_before.shape or not bool(np.all((now == held_before) | (np.isnan(now) & np.isnan(held_before)))) or not bool(np.all((prev_now == prev_before) | (np.isnan(prev_now) & np.isnan(prev_before)))):
                            ctx.violation("the value an output variable holds changes when a setting of the cascade is edited", {"edit": edit, "range": [lo, hi]}, [held_before, prev_before], [now, prev_now])
                        ctx.hit("law:editing the settings leaves the held value alone")
                    hist.append("edit:" + edit)
                    continue
                if c < 0.26:
                    d.queue = [RuntimeError("injected")]
                    hist.append("fail")
                else:
                    n = rnd.choice([1, 1, 2, 3, 5, 12, 0])
                    flo, fhi = (lo if math.isfinite(lo) else -3.0), (hi if math.isfinite(hi) else 3.0)
                    chunk = [rnd.choice([nan, nan, rnd.uniform(flo, fhi), flo - rnd.random(), fhi + rnd.random(), flo, fhi, math.inf, -math.inf]) for _ in range(n)]
                    if shape == "mixed magnitudes" and rnd.random() < 0.6:
                        chunk = [rnd.choice([flo - 3.0 if abs(flo) < 1e9 else fhi + 3.0, flo - rnd.random() if abs(flo) < 1e9 else fhi + rnd.random(), 0.5 * (flo + fhi), flo, fhi]) for _ in range(n)]
                    d.queue = [chunk_value(chunk, rnd.choice(FORMS))]
                    hist.append(chunk)
                try:
                    ov.defuzzify()
                except Exception:
                    pass
            if i < 2:
                ctx.sample("random", {"setting": cfg, "range": [lo, hi], "default": default, "history": hist})
        # two output variables that were handed one and the same array as their value: what one of them does with its own
        # value on defuzzification does not reach the other
        for i, rnd in ctx.cases("shared start value", ctx.scale(60, 3000)):
            cfg = rnd.choice(cfgs)
            n = rnd.choice([1, 3, 6])
            start = np.array([rnd.choice([0.5, 0.25, nan]) for _ in range(n)])
            pair = []
            for name in ("left", "right"):
                d = Scripted()
                ov = OV(name, minimum=0.0, maximum=10.0, lock_previous=cfg[0], default_value=cfg[1], lock_range=False, defuzzifier=d)
                ov.value = start
                pair.append((ov, d))
            for k, (ov, d) in enumerate(pair):
                other = pair[1 - k][0]
                held = np.array(other.value, dtype=float, copy=True)
                d.queue = [np.array([rnd.choice([nan, nan, 8.0, 2.0, rnd.uniform(0, 10)]) for _ in range(n)])]
                try:
                    ov.defuzzify()
                except Exception:
                    pass
                now = np.asarray(other.value, dtype=float)
                ctx.evaluated()
                if now.shape != held.shape or not bool(np.all((now == held) | ((now != now) & (held != held)))):
                    ctx.violation("defuzzifying one output variable changes the value another variable holds (the value array is written into instead of replaced)", {"rows": n, "setting": list(cfg)}, held, now)
            ctx.hit("event:two variables given the same array as value")
        # batches of several thousand rows with long runs of NaN (block-wise forward fill)
        for i, rnd in ctx.cases("large batch", ctx.scale(6, 120)):
            cfg = cfgs[6 + i % 6] if i % 3 else cfgs[i % 6]  # mostly with lock-previous on
            n = rnd.choice([4097, 5000, 8193, 10000]) if not ctx.thorough else rnd.choice([4097, 5000, 8193, 10000, 16500, 33000, 70000])
            d = Scripted()
            ov = OV("o", minimum=0.0, maximum=4.0, lock_previous=cfg[0], default_value=cfg[1], lock_range=cfg[2], defuzzifier=d)
            vals = np.random.default_rng(rnd.randrange(10**6)).random(n) * 5.0
            for _ in range(rnd.randint(1, 4)):
                a = rnd.randrange(0, n)
                vals[a : a + rnd.choice([3, 700, 1200, 4096, 5000])] = nan
            for k in (4095, 4096, 8191, 8192):
                if k < n and rnd.random() < 0.7:
                    vals[max(0, k - rnd.randrange(1, 600)) : k + rnd.randrange(1, 600)] = nan
            if rnd.random() < 0.3:
                vals[: rnd.randrange(1, 50)] = nan
            d.queue = [np.array([1.5]), vals]
            for _ in range(2):
                try:
                    ov.defuzzify()
                except Exception:
                    pass
            ctx.hit("workload:large batch")
        # real engines: rules that fire for no row => NaN from the real defuzzifiers
        real_engines(ctx, fl)
        probe.report(ctx)
        reach.report(ctx)
    ctx.exhaustive = True
    ctx.extra["exhaustive_space"] = f"4^n sequences (n<=3 fully, n<={L} with sampled forms/faults) x 2^(n-1) splits x 12 settings x 4 result forms x failure at each call x clear"
    ctx.require("law:editing the settings leaves the held value alone", "compare:value held from the start of Engine.process to the defuzzification")
    ctx.require("piece:defuzzified while holding an empty batch", "piece:empty batch defuzzified")
    ctx.require("range:mixed magnitudes", "event:observer between steps", *[f"environment:{e}" for e in ENVIRONMENTS])
    ctx.require("event:Engine.process observed", "event:processed with an empty fuzzy output", "event:variable edited between defuzzifications", "event:two variables given the same array as value", "workload:large batch")
    ctx.require("hook:OutputVariable.defuzzify", "hook:OutputVariable.clear", "event:defuzzified:batch", "event:defuzzified:scalar", "event:defuzzifier_raised", "event:disabled", "event:clear", "piece:clipped", "piece:kept", "range:left-open", "range:right-open", "range:unbounded", "default:infinite", "law:defuzzifier result left untouched")
    for lp in (0, 1):
        for d in ("nan", "in", "out"):
            for lr in (0, 1):
                ctx.require(f"setting:lp={lp},default={d},lr={lr}")


def real_engines(ctx, fl):
    """Mamdani / Takagi-Sugeno / Tsukamoto engines whose single rule fires only on part of the input range, all 12 settings,
    scalar rows and batches, processed through Engine.process (so the real defuzzifiers produce the raw values)."""
    cfgs = [(lp, d, lr) for lp in (False, True) for d in (nan, 0.3, 2.5) for lr in (False, True)]
    kinds = ["Centroid", "Bisector", "MeanOfMaximum", "WeightedAverage", "WeightedSum", "WeightedAverage-Tsukamoto"]
    combos = [(k, c) for k in kinds for c in cfgs]
    for i, rnd in ctx.cases("engines", len(combos)):
        kind, cfg = combos[i]
        iv = fl.InputVariable("a", minimum=0.0, maximum=1.0, terms=[fl.Rectangle("mid", 0.25, 0.75), fl.Triangle("t", 0.25, 0.5, 0.75)])
        if kind.startswith("Weighted"):
            if kind.endswith("Tsukamoto"):
                terms, dz = [fl.Ramp("x", 0.0, 2.0)], fl.WeightedAverage()
            else:
                terms, dz = [fl.Constant("x", 1.5)], getattr(fl, kind)()
            agg = None
        else:
            terms, dz, agg = [fl.Triangle("x", 0.0, 1.0, 2.0)], getattr(fl, kind)(50), fl.Maximum()
        ov = fl.OutputVariable("o", minimum=0.0, maximum=1.25, lock_previous=cfg[0], default_value=cfg[1], lock_range=cfg[2], aggregation=agg, defuzzifier=dz, terms=terms)
        rb = fl.RuleBlock("rb", conjunction=fl.Minimum(), disjunction=fl.Maximum(), implication=fl.Minimum(), activation=fl.General(), rules=[fl.Rule.create("if a is t then o is x")])
        engine = fl.Engine("e", input_variables=[iv], output_variables=[ov], rule_blocks=[rb])
        for step in range(6):
            if rnd.random() < 0.5:
                iv.value = rnd.choice([0.1, 0.5, 0.6, 0.9, nan])
            else:
                iv.value = np.array([rnd.choice([0.1, 0.4, 0.5, 0.9, nan]) for _ in range(rnd.choice([1, 2, 4]))])
            rb.enabled = rnd.random() > 0.3  # with the block off nothing is activated: the fuzzy output is empty
            if not rb.enabled:
                ctx.hit("event:processed with an empty fuzzy output")
            envname = ENVIRONMENTS[(i + step) % len(ENVIRONMENTS)] if (i + step) % 4 == 0 else None
            with hostile(fl, envname, ctx):
                try:
                    engine.process()
                except Exception:
                    pass  # judged by the monitor
            # the engine is looked at between two steps: what its output variables hold (value, previous value, fuzzy output)
            # is not something a look may change
            observe(fl, engine, rnd, ctx, None, k=2)
            if step == 3 and rnd.random() < 0.5:
                engine.restart()
        ctx.hit(f"engine_kind:{kind}")
        if i % 24 == 0:
            ctx.sample("engine", {"defuzzifier": kind, "setting": cfg})


def passive(ctx, fl, probe):
    """attach this property's always-on monitor to a foreign workload (the repository's test-suite, see vf/pytest_plugin.py)"""
    mon = CascadeMonitor(ctx, fl)
    mon.install(probe)
    return None
