#!/bin/sh
# re-run every kept behaviour-preserving refactoring against the current checks; $1 = parallel jobs, $2 = "thorough" to add the thorough tier
cd "$(dirname "$0")/.." || exit 2
jobs=${1:-4}
flag=""
[ "$2" = "thorough" ] && flag="--thorough"
log=$(mktemp -d /tmp/vf-benignall-XXXXXX)
for d in benign/*/; do
  id=$(basename "$d")
  echo "$d $id"
done | xargs -P "$jobs" -L 1 sh -c 'tools/benign.py "$0" "$1" '"$flag"' > '"$log"'/"$1".log 2>&1'
for f in "$log"/*.log; do
  echo "== $(basename "$f" .log)"; grep -E "^(repo tests|author|\./check|patch does not|     )" "$f"
done
rm -rf "$log"
