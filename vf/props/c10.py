"""C10 — Weighted defuzzifiers compute the grouped weighted average / sum.

Deciding step: monitors on WeightedAverage/WeightedSum.defuzzify, Aggregated.grouped_terms and
Aggregated.activation_degree recompute, row by row with scalar arithmetic, the grouping by term name (degrees folded
with the scalar formula of the aggregation operator) and sum(w z)/sum(w) resp. sum(w z); the workload adds the
metamorphic insertion of a zero-degree activation at every position."""
from __future__ import annotations

import math

import numpy as np

from ..core import import_library
from ..gen import terms as G
from ..env import ENVIRONMENTS, Held, excusable, hostile
from ..probe import Probe, Reach, plain_function
from ..ref import norms as N
from ..ref import terms as R

WORKERS = {"quick": 1, "thorough": 16}
TS = ("Constant", "Linear", "Function")


def feq(a, b, tol=0.0):
    return a == b or (math.isnan(a) and math.isnan(b)) or abs(a - b) <= tol


def kind_of(term):
    if any(c.__name__ in TS for c in type(term).__mro__):  # (a user's subclass of Constant / Linear / Function is of that family)
        return "TakagiSugeno"
    return "Tsukamoto" if term.is_monotonic() else "Automatic"


class WeightedMonitor:
    def __init__(self, ctx, fl):
        self.ctx, self.fl = ctx, fl

    def install(self, probe):
        fl = self.fl
        for k in ("WeightedAverage", "WeightedSum"):
            probe.wrap(getattr(fl, k), "defuzzify", after=self._after(k))
        probe.wrap(fl.Aggregated, "grouped_terms", after=self._after_groups)
        probe.wrap(fl.Aggregated, "activation_degree", after=self._after_degree)

    # ---- scalar model -------------------------------------------------------------------------------------
    def groups(self, agg, row, nrows):
        """[(term, folded degree)] in first-seen order for one row, folding with the scalar formula of the operator"""
        name = type(agg.aggregation).__name__ if agg.aggregation is not None else "UnboundedSum"
        f = N.REF.get(name)
        if f is None:
            return None
        out, pos = [], {}
        for a in agg.terms:
            d = np.asarray(a.degree, dtype=float).ravel()
            w = float(d[row] if d.size > 1 else d[0])
            key = a.term.name
            if key not in pos:
                pos[key] = len(out)
                out.append([a.term, w])
            else:
                out[pos[key]][1] = f(out[pos[key]][1], w)
        return out

    @staticmethod
    def nrows(agg):
        n = 1
        for a in agg.terms:
            n = max(n, int(np.size(a.degree)))
        return n

    def _after_groups(self, args, kwargs, token, result, exc):
        ctx, agg = self.ctx, args[0]
        if exc is not None:
            ctx.violation("Aggregated.grouped_terms raises", {"set": agg.parameters()}, "groups", repr(exc))
            return
        n = self.nrows(agg)
        ctx.evaluated()
        first = self.groups(agg, 0, n)
        if first is None:
            ctx.hit("out_of_domain:custom aggregation operator")
            return
        if list(result.keys()) != [t.name for t, _ in first]:
            ctx.violation("grouped_terms: groups are not the distinct term names in first-seen order", {"set": agg.parameters()}, [t.name for t, _ in first], list(result.keys()))
            return
        for row in range(n):
            for (term, w), act in zip(self.groups(agg, row, n), result.values()):
                d = np.asarray(act.degree, dtype=float).ravel()
                g = float(d[row] if d.size > 1 else d[0])
                ctx.hit("law:group degree")
                if act.term is not term or not feq(g, w, 1e-12 * max(1.0, abs(w))):
                    ctx.violation("grouped_terms: degree of a group is not the aggregation of its members' degrees", {"set": agg.parameters(), "term": term.name, "row": row}, w, g)

    def _after_degree(self, args, kwargs, token, result, exc):
        ctx, agg, term = self.ctx, args[0], args[1]
        if exc is not None:
            return
        n = self.nrows(agg)
        got = np.asarray(result, dtype=float).ravel()
        ctx.evaluated()
        for row in range(n):
            gs = self.groups(agg, row, n)
            if gs is None:
                return
            w = next((w for t, w in gs if t.name == term.name), 0.0)
            g = float(got[row] if got.size > 1 else got[0])
            ctx.hit("law:activation_degree")
            if not feq(g, w, 1e-12 * max(1.0, abs(w))):
                ctx.violation("Aggregated.activation_degree differs from the aggregated degree of the term", {"set": agg.parameters(), "term": term.name, "row": row}, w, g)

    declared: dict = {}  # id(defuzzifier) -> type name the workload configured it with

    def _after(self, kind):
        def after(args, kwargs, token, result, exc):
            self.judge(kind, args[0], args[1], result, exc)

        return after

    def judge(self, kind, dz, agg, result, exc):
        ctx, fl = self.ctx, self.fl
        if not isinstance(agg, fl.Aggregated):
            ctx.hit("out_of_domain:not an Aggregated term")
            return
        case = {"defuzzifier": kind, "type": dz.type.name, "set": agg.parameters(), "terms": {a.term.name: str(a.term) for a in agg.terms}}
        kinds = {kind_of(a.term) for a in agg.terms}
        declared = self.declared.get(id(dz), dz.type.name)  # what the workload configured, when it knows; else what the object says
        ctx.evaluated()
        if declared == "Automatic":
            if len(kinds) > 1:
                ctx.hit("piece:mixed-kinds")
                if exc is None:
                    ctx.violation(f"{kind}: mixed kinds of terms accepted under Automatic", case, "TypeError", result)
                elif not isinstance(exc, TypeError):
                    ctx.violation(f"{kind}: mixed kinds of terms rejected with {type(exc).__name__}", case, "TypeError", repr(exc))
                return
            use = next(iter(kinds)) if kinds else "Automatic"
        else:
            use = declared
        ctx.hit(f"piece:{kind}:{declared}->{use}")
        tsukamoto = use == "Tsukamoto"
        if tsukamoto and any(not a.term.is_monotonic() for a in agg.terms):
            ctx.hit("out_of_domain:Tsukamoto fixed explicitly on non-monotonic terms")
            return
        n = self.nrows(agg)
        rows = []
        zsize = 1
        row = -1
        while row + 1 < max(n, zsize):  # Linear/Function values may be batches (engine inputs) although the degrees are scalars
            row += 1
            gs = self.groups(agg, row, n)
            if gs is None:
                ctx.hit("out_of_domain:custom aggregation operator")
                return
            num, den, zs, ks = 0.0, 0.0, [], []
            for term, w in gs:
                if tsukamoto:
                    got = R.params_of(term)
                    h = got[2] if got else 1.0
                    if w > h or (w == h and type(term).__name__ == "Sigmoid") or w < 0:
                        ctx.hit("out_of_domain:Tsukamoto degree outside [0, height]")
                        return
                if w == 0.0:
                    zs.append(None)
                    continue  # "an activation with degree 0 never changes the result"
                try:
                    z = term.tsukamoto(w) if tsukamoto else term.membership(w)
                except Exception as ex:
                    ctx.hit(f"out_of_domain:term value raises {type(ex).__name__}")
                    return
                if isinstance(term, fl.Linear) and term.engine is not None and not tsukamoto:
                    # (the value of a Linear term is its coefficients - as the list holds them now - applied to the input values)
                    try:
                        cs = [float(c) for c in term.coefficients]
                        ins = [np.asarray(v.value, dtype=float) for v in term.engine.input_variables]
                        if len(cs) in (len(ins), len(ins) + 1):
                            ref = sum((c * x for c, x in zip(cs, ins)), np.asarray(0.0)) + (cs[len(ins)] if len(cs) > len(ins) else 0.0)
                            ctx.hit("compare:Linear term value")
                            if np.shape(ref) == np.shape(z) or np.size(ref) == np.size(z):
                                a, b = np.asarray(ref, dtype=float).ravel(), np.asarray(z, dtype=float).ravel()
                                if not bool(np.all((np.abs(a - b) <= 1e-9 * np.maximum(1.0, np.abs(a))) | (np.isnan(a) & np.isnan(b)) | (np.isinf(a) & (a == b)))):
                                    ctx.violation("the value of a Linear term is not its coefficients applied to the input values", dict(case, term=term.name, coefficients=cs), a, b)
                                    return
                    except (TypeError, ValueError):
                        pass
                z = np.asarray(z, dtype=float).ravel()
                zsize = max(zsize, z.size)
                if z.size > 1 and row >= z.size:
                    ctx.hit("out_of_domain:batch sizes of degrees and inputs differ")
                    return
                z = float(z[row] if z.size > 1 else z[0])
                zs.append(z)
                if type(term).__name__ == "Constant":
                    ks.append(z)
                num += w * z
                den += w
            if not gs or den == 0.0:
                e = math.nan
            else:
                e = num / den if kind == "WeightedAverage" else num
            rows.append((e, gs, zs, ks, den))
        if exc is not None:
            ctx.violation(f"{kind}: defuzzify raises {type(exc).__name__}", case, [r[0] for r in rows], repr(exc))
            return
        got = np.asarray(result, dtype=float).ravel()
        n = len(rows)
        if got.size != n and n != 1 and not (got.size == 1 and all(feq(r[0], rows[0][0]) for r in rows)):
            ctx.violation(f"{kind}: a batch of sets gives a different number of values", dict(case, rows=n), n, got)
            return
        if got.size == 1 and n > 1:
            got = np.repeat(got, n)
        if n == 1 and got.size > 1:  # values of terms with degree 0 (not evaluated by the model) may carry the batch shape of the inputs
            rows = rows * got.size
            n = got.size
        ctx.hit(f"calls:{kind}:{'batch' if n > 1 else 'single'}")
        for row, (e, gs, zs, ks, den) in enumerate(rows):
            g = float(got[row])
            zero_members = [t.name for (t, w) in gs if w == 0.0]
            single = any(getattr(a.degree, "dtype", None) == np.float32 for a in agg.terms)
            if math.isnan(e) or math.isnan(g):
                if math.isnan(e) != math.isnan(g):
                    if zero_members and tsukamoto and math.isnan(g):
                        ctx.violation(f"{kind}: Tsukamoto result is NaN because of a zero-degree activation (0 x infinite tsukamoto value)", dict(case, row=row, zero_degree_terms=zero_members), e, g)
                    else:
                        ctx.violation(f"{kind}: NaN does not coincide with 'no activations or all weights zero'", dict(case, row=row), e, g)
                else:
                    ctx.hit(f"piece:nan:{'no-activations' if not gs else 'all-weights-zero'}")
                continue
            mag = max(1.0, abs(e), max((abs(w * z) for (t, w), z in zip(gs, zs) if z is not None), default=0.0))
            # degrees handed over in single precision are combined in single precision (NumPy keeps the array's type when the
            # other operand is a scalar): the result is then only as good as float32 arithmetic
            if single:
                ctx.hit("piece:single-precision degrees (tolerance 1e-5)")
            if not feq(g, e, (1e-5 if single else 1e-12) * mag):
                ctx.violation(f"{kind}: result differs from the grouped {'sum(w z)/sum(w)' if kind == 'WeightedAverage' else 'sum(w z)'}", dict(case, row=row, groups=[(t.name, w) for t, w in gs], z=zs), e, g)
                continue
            if kind == "WeightedAverage" and ks and len(ks) == len([z for z in zs if z is not None]) and all(w >= 0 for _, w in gs):
                ctx.hit("law:average-of-constants-bounded")
                if not (min(ks) - (1e-5 if single else 1e-12) * mag <= g <= max(ks) + (1e-5 if single else 1e-12) * mag):
                    ctx.violation("WeightedAverage of constants lies outside [min, max] of the activated constants", dict(case, row=row), [min(ks), max(ks)], g)
            if zero_members:
                ctx.hit("piece:zero-degree-member")
            if len(gs) < len(agg.terms):
                ctx.hit("piece:repeated-term-grouped")
            if len(gs) > 1:
                ctx.nontrivial(kind, use, tuple((t.name, w) for t, w in gs), tuple(zs))


# ---- workload ------------------------------------------------------------------------------------------------------------


def gen_set(fl, rnd, batch):
    """engine with inputs (for Linear/Function), output terms of one family, and a list of activations"""
    family = rnd.choice(["ts", "ts", "tsukamoto", "tsukamoto", "inverse", "mixed"])
    nin = rnd.randint(1, 2)
    ivs = [fl.InputVariable(f"in{k}", minimum=-2.0, maximum=2.0) for k in range(nin)]
    engine = fl.Engine("e", input_variables=ivs)
    for iv in ivs:
        iv.value = np.array([rnd.uniform(-2, 2) for _ in range(batch)]) if batch else rnd.uniform(-2, 2)
    lo, hi = -3.0, 7.0
    specs = []
    for j in range(rnd.randint(1, 4)):
        fam = family if family != "mixed" else rnd.choice(["ts", "tsukamoto", "inverse"])
        if fam == "ts":
            c = rnd.choice(["Constant", "Constant", "Linear", "Function"])
            if c == "Constant":
                t = fl.Constant(f"t{j}", G.snap(rnd.uniform(lo, hi), 3))
            elif c == "Linear":
                t = fl.Linear(f"t{j}", [G.snap(rnd.uniform(-2, 2), 3) for _ in range(nin + rnd.choice([0, 1]))], engine)
            else:
                t = fl.Function.create(f"t{j}", rnd.choice(["in0 * 2.0 + 1.0", "sin ( in0 ) / 2.0", "in0 * 0.5 - x", "in0 ^ 2.0", "x * 3.0", "x", "in0"]), engine)
        elif fam == "tsukamoto":
            t = G.build_term(fl, G.shape_term(rnd, f"t{j}", lo, hi, kinds=G.MONOTONIC))
        else:
            t = G.build_term(fl, G.shape_term(rnd, f"t{j}", 0.0, 1.0, kinds=["Triangle", "Gaussian", "Bell", "Trapezoid", "Cosine"]))
        specs.append((fam, t))
    acts = []
    for _ in range(rnd.randint(0, 6)):
        fam, t = rnd.choice(specs)
        top = getattr(t, "height", 1.0) if fam == "tsukamoto" else 1.0

        def one():
            c = rnd.random()
            if c < 0.18:
                return 0.0
            if c < 0.24:
                return rnd.choice([1e-4, 3e-4, 1e-9, 1e-300]) * (1.0 if fam != "tsukamoto" else min(1.0, top))
            if c < 0.3 and fam != "tsukamoto":
                return 1.0
            if c < 0.5:
                return min(rnd.randrange(0, 17) / 16, top) * (0.999 if fam == "tsukamoto" else 1.0)
            return rnd.random() * top * (0.999 if fam == "tsukamoto" else 1.0)

        deg = np.array([one() for _ in range(batch)]) if (batch and rnd.random() < 0.85) else one()
        if fam == "tsukamoto" and top == 1.0 and type(t).__name__ in ("SShape", "ZShape", "Ramp") and rnd.random() < 0.25:
            # a rule that fired fully or not at all: whole-number degrees
            deg = np.array([float(rnd.choice([0, 1])) for _ in range(batch)]) if batch else float(rnd.choice([0, 1, 1]))
        # degrees held as whole numbers (a rule that fired fully / not at all) or in single precision, where that is exact
        vals = np.atleast_1d(deg)
        c = rnd.random()
        whole_ok = fam != "tsukamoto" or (top == 1.0 and type(t).__name__ in ("SShape", "ZShape", "Ramp"))  # (z at w = height is the end point)
        if c < (0.12 if fam != "tsukamoto" else 0.5) and whole_ok and np.all((vals == 0.0) | (vals == 1.0)):
            deg = deg.astype(np.int64) if isinstance(deg, np.ndarray) else int(deg)
        acts.append((t, deg))
    # ... or in single precision, when every degree of the set is exactly representable there (multiples of 1/16): the library
    # then computes in single precision, which is judged at single precision
    if acts and rnd.random() < 0.15 and all(np.all(np.atleast_1d(d) * 16 == np.floor(np.atleast_1d(d) * 16)) for _, d in acts):
        acts = [(t, (d.astype(np.float32) if isinstance(d, np.ndarray) and d.dtype.kind == "f" else np.float32(d) if isinstance(d, float) else d)) for t, d in acts]
    # under a sum-like aggregation Tsukamoto degrees of a repeated term may exceed the height: the monitor counts those as out of domain
    aggregation = rnd.choice(N.SNORMS + [None, None, "Maximum"])
    return engine, specs, acts, aggregation, family


def run(ctx):
    fl = import_library()
    nsets = ctx.scale(1200, 100_000)
    ctx.rule = (
        f"every WeightedAverage/WeightedSum.defuzzify, Aggregated.grouped_terms and activation_degree call observed. Workload: {nsets} fuzzy "
        "outputs of 0-6 activations over 1-4 Constant/Linear/Function, monotonic or non-monotonic terms with repetitions, every aggregation "
        "operator or none, types {Automatic, TakagiSugeno, Tsukamoto}, scalar and batch degrees including exact 0; mixed kinds under Automatic "
        "must be rejected; a zero-degree activation is inserted at every position (metamorphic). distinct_nontrivial = distinct (defuzzifier, "
        "kind used, grouped (term, degree) list, z values) with at least two groups"
    )
    ctx.assumptions += ["z values come from the library's own membership/tsukamoto (C03/C11)", "degrees of a repeated term are folded with the scalar formulas of vf/ref/norms.py", "Tsukamoto degrees above the term's height (possible under sum-like aggregation) are out of domain", "tolerance 1e-12 x magnitude (1e-5 when a degree array is float32: the library then computes in single precision)"]
    funcs = {"WeightedAverage.defuzzify": fl.WeightedAverage.defuzzify, "WeightedSum.defuzzify": fl.WeightedSum.defuzzify, "Aggregated.grouped_terms": fl.Aggregated.grouped_terms, "WeightedDefuzzifier.infer_type": plain_function(fl.WeightedDefuzzifier, "infer_type")}
    funcs = {k: v for k, v in funcs.items() if v is not None and hasattr(v, "__code__")}
    ctx.excuse = lambda mechanism, observed, note: excusable(observed)
    kept = Held(ctx)
    with Reach(funcs) as reach, Probe() as probe:
        mon = WeightedMonitor(ctx, fl)
        mon.install(probe)
        for i, rnd in ctx.cases("sets", nsets):
            batch = rnd.choice([0, 0, 0, 2, 3, 5])
            envname = ENVIRONMENTS[(i // 10) % len(ENVIRONMENTS)] if i % 10 == 3 else None
            engine, specs, acts, aggregation, family = gen_set(fl, rnd, batch)
            agg_op = getattr(fl, aggregation)() if aggregation else None
            if i % 7 == 3 and family != "mixed" and len(specs) >= 2:
                # distinct terms without a name (the empty name is the default): one group, like any other shared name
                for _, t in specs[:2]:
                    t.name = ""
                ctx.hit("event:distinct terms with the empty name")
            if i % 5 == 1:
                # a Linear term is re-tuned by editing its list of coefficients in place, after it has been evaluated once
                for _, t in specs:
                    if isinstance(t, fl.Linear) and t.coefficients:
                        try:
                            t.membership(0.0)
                        except Exception:
                            pass
                        t.coefficients[0] = G.snap(rnd.uniform(-2, 2), 3)
                        if rnd.random() < 0.5:
                            t.coefficients[-1] += 0.5
                        ctx.hit("event:coefficients of a Linear term edited in place after an evaluation")
            # an activation keeps the degrees it was given: the caller's array is neither rewritten nor followed when it changes
            for t, d in acts[:2]:
                if isinstance(d, np.ndarray) and d.dtype.kind == "f" and d.size:
                    mine = np.array(d, copy=True)
                    mine[0] = math.nan
                    given = mine.copy()
                    act = fl.Activated(t, mine)
                    stored = np.array(act.degree, dtype=float, copy=True)
                    ctx.evaluated()
                    ctx.hit("law:an activation keeps its own degrees")
                    if not np.array_equal(mine, given, equal_nan=True):
                        ctx.violation("creating an activation rewrites the caller's array of degrees", {"term": t.name}, given, mine)
                    mine[:] = 0.75
                    if not np.array_equal(np.asarray(act.degree, dtype=float), stored, equal_nan=True):
                        ctx.violation("the degrees of an activation follow later changes of the array they were given in", {"term": t.name}, stored, act.degree)
            # the activations handed over as a list, a tuple or a one-shot iterable: the fuzzy set holds them all the same
            made = [fl.Activated(t, d) for t, d in acts]
            container = [list, tuple, iter, (lambda xs: (x for x in xs)), (lambda xs: map(lambda x: x, xs))][i % 5]
            out = fl.Aggregated("o", -3.0, 7.0, agg_op, container(made))
            ctx.evaluated()
            ctx.hit("compare:fuzzy set holds the activations it was given")
            if len(out.terms) != len(made) or any(a is not b for a, b in zip(out.terms, made)):
                ctx.violation("a fuzzy set built from an iterable of activations does not hold them", {"given as": ["list", "tuple", "iterator", "generator", "map"][i % 5], "activations": len(made)}, len(made), len(out.terms))
                out = fl.Aggregated("o", -3.0, 7.0, agg_op, made)
            held = [(v, np.array(v.value, dtype=float, copy=True)) for v in engine.input_variables]
            degrees_before = [np.array(a.degree, dtype=float, copy=True) for a in out.terms]
            for cls in (fl.WeightedAverage, fl.WeightedSum):
                for type_ in ("Automatic", "TakagiSugeno", "Tsukamoto"):
                    how = (i + len(type_)) % 3
                    if how == 0:
                        dz = cls(type_)
                    elif how == 1:
                        dz = cls(fl.WeightedDefuzzifier.Type[type_])
                    else:
                        dz = fl.settings.factory_manager.defuzzifier.construct(cls.__name__)
                        dz.configure(type_ if type_ != "Automatic" or i % 2 else "")
                    try:
                        with hostile(fl, envname, ctx):
                            handed = dz.defuzzify(out)
                        base = np.array(handed, dtype=float, copy=True)
                        # the same defuzzifier object asked again about a set of the same batch size: what it returned before stays
                        kept.keep(f"{cls.__name__}.defuzzify", handed)
                        dz.defuzzify(fl.Aggregated("o", -3.0, 7.0, agg_op, [fl.Activated(t, np.asarray(d, dtype=float) * 0.5) for t, d in acts]))
                        kept.check("the next defuzzification with the same object")
                        kept.clear()
                    except Exception:
                        continue  # judged by the monitor
                    # a zero-degree activation at every position never changes the result
                    # (not where distinct terms share a name: which of them stands for the group then depends on which comes first)
                    if family != "mixed" and i % 2 == 0 and len({t.name for _, t in specs}) == len(specs):
                        for pos in range(len(acts) + 1):
                            t = rnd.choice(specs)[1]
                            zero = np.zeros(batch) if (batch and rnd.random() < 0.5) else 0.0
                            terms = [fl.Activated(tt, d) for tt, d in acts]
                            terms.insert(pos, fl.Activated(t, zero))
                            try:
                                again = np.asarray(dz.defuzzify(fl.Aggregated("o", -3.0, 7.0, agg_op, terms)), dtype=float)
                            except Exception:
                                continue
                            ctx.hit("law:zero-degree insertion")
                            ctx.evaluated()
                            a, b = np.broadcast_arrays(base, again)
                            for u, v in zip(a.ravel(), b.ravel()):
                                if not feq(float(u), float(v), (1e-5 if any(getattr(d_, "dtype", None) == np.float32 for _, d_ in acts) else 1e-12) * max(1.0, abs(float(u)))):
                                    # (if the monitor already blamed the zero-degree NaN mechanism this is the same defect seen metamorphically)
                                    ctx.violation("inserting a zero-degree activation changes the result" + (" (Tsukamoto, NaN)" if math.isnan(float(v)) and type_ != "TakagiSugeno" else ""), {"defuzzifier": cls.__name__, "type": type_, "set": out.parameters(), "inserted": t.name, "position": pos}, float(u), float(v))
                                    break
            # defuzzifying reads: neither the input values nor the degrees of the fuzzy output are different afterwards
            ctx.evaluated()
            for v, before in held:
                now = np.asarray(v.value, dtype=float)
                if now.shape != before.shape or not bool(np.all((now == before) | ((now != now) & (before != before)))):
                    ctx.violation("defuzzifying a fuzzy output changes the value of an input variable (a term value that is the variable's own array is written into)", {"variable": v.name, "set": out.parameters()}, before, now)
            for a, before in zip(out.terms, degrees_before):
                now = np.asarray(a.degree, dtype=float)
                if now.shape != before.shape or not bool(np.all((now == before) | ((now != now) & (before != before)))):
                    ctx.violation("defuzzifying a fuzzy output changes the degree of one of its activations", {"term": a.term.name, "set": out.parameters()}, before, now)
            ctx.hit("law:defuzzification leaves inputs and degrees untouched")
            out.grouped_terms()
            for _, t in specs:
                out.activation_degree(t)
            # one Automatic defuzzifier object: a fuzzy output it has to give up on part-way (a Linear term with the wrong number of
            # coefficients), then an ordinary one of another family - the failure must leave nothing behind
            if i % 4 == 0:
                for cls in (fl.WeightedAverage, fl.WeightedSum):
                    dz = cls()
                    mon.declared = {id(dz): "Automatic"}
                    for failing_family in ("ts", "tsukamoto"):
                        if failing_family == "ts":
                            bad = fl.Aggregated("o", -3.0, 7.0, agg_op, [fl.Activated(fl.Constant("c", 1.0), 0.5), fl.Activated(fl.Linear("bad", [1.0] * (len(engine.input_variables) + 3), engine), 0.5)])
                        else:
                            bad = fl.Aggregated("o", -3.0, 7.0, agg_op, [fl.Activated(fl.Ramp("r", 0.0, 1.0), 0.5), fl.Activated(fl.Ramp("r2", 0.0, 1.0), np.array([0.5, 0.25, 0.125]) if not batch else np.ones(batch + 1) / 2)])
                        try:
                            dz.defuzzify(bad)
                            ctx.hit("event:failing fuzzy output accepted")
                        except Exception:
                            ctx.hit("event:defuzzification gave up part-way")
                        for good in (fl.Aggregated("o", 0.0, 2.0, agg_op, [fl.Activated(fl.Ramp("up", 0.0, 2.0), 0.25), fl.Activated(fl.Ramp("down", 2.0, 0.0), 0.5)]), fl.Aggregated("o", 0.0, 2.0, agg_op, [fl.Activated(fl.Constant("k", 1.5), 0.25), fl.Activated(fl.Constant("m", 0.5), 0.5)])):
                            try:
                                dz.defuzzify(good)
                            except Exception:
                                pass  # judged by the monitor
                    mon.declared = {}
            # the same Aggregated object again with other contents (first emptied, then terms of possibly another kind)
            if family != "mixed":
                engine2, specs2, acts2, _, family2 = gen_set(fl, rnd, 0)
                if family2 != "mixed":
                    reused = fl.Aggregated("o", -3.0, 7.0, agg_op, [])
                    for cls in (fl.WeightedAverage, fl.WeightedSum):
                        dz = cls()
                        for content in ([], [fl.Activated(t, d) for t, d in acts if np.size(d) == 1], [fl.Activated(t, d) for t, d in acts2]):
                            reused.terms[:] = content
                            try:
                                dz.defuzzify(reused)
                            except Exception:
                                pass
                    ctx.hit("event:aggregated object reused with other contents")
            # inferred kind of variables / sets
            for fam in ("ts", "tsukamoto", "inverse"):
                members = [t for f, t in specs if f == fam]
                if members and len(members) == len(specs):
                    want = {"ts": "TakagiSugeno", "tsukamoto": "Tsukamoto", "inverse": "Automatic"}[fam]
                    got = fl.WeightedDefuzzifier.infer_type(fl.Aggregated("o", terms=[fl.Activated(t, 1.0) for t in members])).name
                    ctx.hit(f"law:infer_type:{want}")
                    if got != want:
                        ctx.violation("infer_type does not infer the kind from the terms", {"terms": [str(t) for t in members]}, want, got)
            if i < 3:
                ctx.sample("set", {"family": family, "aggregation": aggregation, "set": out.parameters(), "terms": [str(t) for _, t in specs], "WeightedAverage": safe(lambda: fl.WeightedAverage().defuzzify(out))})
        # terms of a user's own classes: a monotonic term derived directly from Term (it says so itself and has its own Tsukamoto
        # value), a constant-like term derived from Constant; alone and next to built-in terms of the same family
        class Power(fl.Term):
            def __init__(self, name, start, end, exponent, height=1.0):
                super().__init__(name, height)
                self.start, self.end, self.exponent = start, end, exponent

            def membership(self, x):
                x = fl.scalar(x)
                return self.height * np.where(np.isnan(x), np.nan, np.clip((x - self.start) / (self.end - self.start), 0.0, 1.0) ** self.exponent)

            def is_monotonic(self):
                return True

            def tsukamoto(self, y):
                return self.start + (self.end - self.start) * (fl.scalar(y) / self.height) ** (1.0 / self.exponent)

        class Offset(fl.Constant):
            pass

        for i, rnd in ctx.cases("user terms", ctx.scale(60, 1500)):
            batch = rnd.choice([0, 0, 3])
            deg = lambda: (np.array([rnd.choice([0.0, 0.25, 1.0, rnd.random()]) for _ in range(batch)]) if batch else rnd.choice([0.0, 0.25, 0.5, 1.0, rnd.random()]))  # noqa: E731
            if i % 3 == 2:
                terms = [Offset(f"k{j}", G.snap(rnd.uniform(-3, 7), 3)) for j in range(rnd.randint(1, 3))] + ([fl.Constant("c", 1.5)] if rnd.random() < 0.5 else [])
            else:
                terms = [Power(f"p{j}", 0.0, rnd.choice([1.0, 2.0, 4.0]), rnd.choice([0.5, 2.0, 3.0])) for j in range(rnd.randint(1, 3))] + ([fl.Ramp("r", 0.0, 2.0)] if rnd.random() < 0.5 else [])
            acts = [fl.Activated(rnd.choice(terms), deg()) for _ in range(rnd.randint(1, 4))]
            out = fl.Aggregated("o", -3.0, 7.0, rnd.choice([None, fl.Maximum()]), acts)
            for cls in (fl.WeightedAverage, fl.WeightedSum):
                for type_ in ("Automatic", "Automatic", "Tsukamoto" if i % 3 != 2 else "TakagiSugeno"):
                    try:
                        cls(type_).defuzzify(out)
                    except Exception:
                        pass  # judged by the monitor
            want = "TakagiSugeno" if i % 3 == 2 else "Tsukamoto"
            got = fl.WeightedDefuzzifier.infer_type(out).name
            ctx.evaluated()
            if got != want:
                ctx.violation("infer_type does not infer the kind from the terms", {"terms": [str(t) for t in terms], "user_classes": True}, want, got)
            ctx.hit("workload:terms of a user's own classes")
        # fuzzy outputs with more than 64 distinct terms (stacked accumulation): constants, one activation each, scalar and batch
        for i, rnd in ctx.cases("many terms", ctx.scale(6, 200)):
            k = rnd.choice([65, 66, 80, 129, 200])
            batch = rnd.choice([0, 3])
            acts = []
            for j in range(k):
                deg = (lambda: rnd.choice([0.0, 0.0, 0.25, 1.0, rnd.random()]))
                acts.append(fl.Activated(fl.Constant(f"k{j}", G.snap(rnd.uniform(-3, 7), 3)), np.array([deg() for _ in range(batch)]) if batch else deg()))
            for cls in (fl.WeightedAverage, fl.WeightedSum):
                for agg_name in (None, "Maximum", "AlgebraicSum"):
                    try:
                        cls().defuzzify(fl.Aggregated("o", -3.0, 7.0, getattr(fl, agg_name)() if agg_name else None, list(acts)))
                    except Exception:
                        pass
            ctx.hit("workload:more than 64 distinct terms")
        probe.report(ctx)
        reach.report(ctx)
    ctx.require("compare:fuzzy set holds the activations it was given")
    ctx.require("event:distinct terms with the empty name", "event:coefficients of a Linear term edited in place after an evaluation", "law:an activation keeps its own degrees", "compare:Linear term value")
    ctx.require("workload:terms of a user's own classes", "law:values handed out earlier are left alone", *[f"environment:{e}" for e in ENVIRONMENTS])
    ctx.require("event:defuzzification gave up part-way", "workload:more than 64 distinct terms", "law:defuzzification leaves inputs and degrees untouched")
    ctx.require("hook:WeightedAverage.defuzzify", "hook:WeightedSum.defuzzify", "hook:Aggregated.grouped_terms", "hook:Aggregated.activation_degree", "law:zero-degree insertion", "piece:mixed-kinds", "piece:zero-degree-member", "piece:repeated-term-grouped", "piece:nan:no-activations", "piece:nan:all-weights-zero", "law:average-of-constants-bounded", "calls:WeightedAverage:batch", "calls:WeightedSum:batch", "event:aggregated object reused with other contents")
    for k in ("WeightedAverage", "WeightedSum"):
        ctx.require(f"piece:{k}:Automatic->TakagiSugeno", f"piece:{k}:Automatic->Tsukamoto", f"piece:{k}:Automatic->Automatic", f"piece:{k}:TakagiSugeno->TakagiSugeno", f"piece:{k}:Tsukamoto->Tsukamoto")


def safe(f):
    try:
        return f()
    except Exception as ex:
        return repr(ex)


def passive(ctx, fl, probe):
    """attach this property's always-on monitor to a foreign workload (the repository's test-suite, see vf/pytest_plugin.py)"""
    mon = WeightedMonitor(ctx, fl)
    mon.install(probe)
    return None
