"""C01 — Engine output equals the documented inference pipeline.

Deciding step: a monitor on Engine.process snapshots the state before the call and, after it, recomputes the whole
pipeline with the wiring model (own parser of the rule texts, own evaluation and contribution lists, own aggregation
fold, reference cascade) and compares rule degrees, fuzzy outputs (term identity, degree, implication, order) and
output values bit for bit.  Activated.membership and Aggregated.membership carry their own element-wise monitors."""
from __future__ import annotations

import math

import numpy as np

from ..core import describe, import_library
from ..gen import engines as E
from ..env import ENVIRONMENTS, Held, excusable, hostile, observe
from ..probe import Probe, Reach
from ..ref import norms as N
from ..ref import wiring as W
from . import c08, c12

WORKERS = {"quick": 1, "thorough": 16}


def rows_of(v):
    return [float(x) for x in np.atleast_1d(np.asarray(v, dtype=float)).ravel()]


class PipelineMonitor:
    def __init__(self, ctx, fl):
        self.ctx, self.fl = ctx, fl
        self.oracle = W.Oracle(fl)
        self.declared = {}  # id(engine) -> {output variable name: defuzzifier as the workload configured it}
        self.weights = {}  # id(engine) -> {(block, rule): weight the workload gave the rule}
        self.rejected = {}  # id(engine) -> {(block, rule)} whose load the workload saw rejected (they must stay out of everything)

    def install(self, probe):
        fl = self.fl
        probe.wrap(fl.Engine, "process", before=self._before, after=self._after)
        probe.wrap(fl.Activated, "membership", after=self._after_activated)
        probe.wrap(fl.Aggregated, "membership", after=self._after_aggregated)

    # ---- glue monitors (element-wise, scalar formulas) ----------------------------------------------------
    def _after_activated(self, args, kwargs, token, result, exc):
        ctx, act, x = self.ctx, args[0], args[1]
        if exc is not None or act.implication is None:
            return
        name = type(act.implication).__name__
        f = N.REF.get(name)
        if f is None:
            return
        try:
            mu = np.asarray(act.term.membership(x), dtype=float)
            deg = np.asarray(act.degree, dtype=float)
            want_shape = np.broadcast_shapes(np.atleast_2d(deg).T.shape, mu.shape)
            res = np.asarray(result, dtype=float)
            full = np.broadcast_to(res.reshape(want_shape) if res.size == int(np.prod(want_shape)) else res, want_shape)
        except Exception:
            ctx.hit("glue:Activated.membership:not comparable")
            return
        D = np.broadcast_to(np.atleast_2d(deg).T, want_shape).ravel()
        M = np.broadcast_to(mu, want_shape).ravel()
        Rr = full.ravel()
        n = D.size
        ctx.hit("glue:Activated.membership")
        for i in (range(n) if n <= 24 else np.linspace(0, n - 1, 24).astype(int)):
            d, m, r = float(D[i]), float(M[i]), float(Rr[i])
            if not (0 <= d <= 1 and 0 <= m <= 1):
                continue
            ctx.evaluated()
            e = f(d, m)
            if not (r == e or abs(r - e) <= 1e-12):
                ctx.violation("Activated.membership is not implication(degree, membership)", {"implication": name, "degree": d, "membership": m}, e, r)
                return

    def _after_aggregated(self, args, kwargs, token, result, exc):
        ctx, agg, x = self.ctx, args[0], args[1]
        if exc is not None or agg.aggregation is None:
            return
        name = type(agg.aggregation).__name__
        f = N.REF.get(name)
        if f is None or any(a.implication is None for a in agg.terms):
            return
        try:
            parts = [np.asarray(a.membership(x), dtype=float) for a in agg.terms]
            res = np.asarray(result, dtype=float)
            shape = np.broadcast_shapes(res.shape, *[p.shape for p in parts])
            parts = [np.broadcast_to(p, shape).ravel() for p in parts]
            Rr = np.broadcast_to(res, shape).ravel()
        except Exception:
            ctx.hit("glue:Aggregated.membership:not comparable")
            return
        n = Rr.size
        ctx.hit("glue:Aggregated.membership")
        for i in (range(n) if n <= 24 else np.linspace(0, n - 1, 24).astype(int)):
            acc = 0.0
            ok = True
            for p in parts:
                v = float(p[i])
                if not (0 <= v <= 1) or (name != "UnboundedSum" and not (0 <= acc <= 1)):
                    ok = False
                    break
                acc = f(acc, v)
            if not ok:
                continue
            ctx.evaluated()
            r = float(Rr[i])
            if not (r == acc or abs(r - acc) <= 1e-9 * max(1.0, abs(acc))):
                ctx.violation("Aggregated.membership is not the left fold of the aggregation operator from 0", {"aggregation": name, "terms": len(parts), "values": [float(p[i]) for p in parts]}, acc, r)
                return

    # ---- the pipeline -------------------------------------------------------------------------------------
    def in_domain(self, engine):
        fl = self.fl
        if not engine.is_ready():
            return "engine not ready"
        outs = {ov.name for ov in engine.output_variables}
        for v in engine.variables:
            names = [t.name for t in v.terms]
            if len(set(names)) != len(names):
                return "duplicate term names in a variable"
            for t in v.terms:
                if isinstance(t, fl.Function) and any(tok in outs for tok in t.formula.replace("(", " ").replace(")", " ").split()):
                    return "Function term over an output variable's value"
        if len({v.name for v in engine.variables}) != len(engine.variables):
            return "duplicate variable names"
        for rb in engine.rule_blocks:
            if rb.activation is not None and type(rb.activation).__name__ != "General":
                # whether degrees are all computed before the first rule triggers is method-specific (First/Last/Threshold
                # interleave, Highest/Lowest/Proportional do not): the property does not fix it, so such blocks are not judged
                for rule in rb.rules:
                    toks = set(rule.antecedent.text.replace("(", " ").replace(")", " ").split())
                    if toks & outs:
                        return "output variable in an antecedent under a non-General activation method"
            if rb.activation is None:
                return "no activation method"
            if type(rb.activation).__name__ not in c08.METHODS:
                return "custom activation method"
            for op in (rb.conjunction, rb.disjunction, rb.implication):
                if op is not None and type(op).__name__ not in N.REF:
                    return "custom operator"
            for ri, rule in enumerate(rb.rules):
                if not rule.is_loaded() and (engine.rule_blocks.index(rb), ri) not in self.rejected.get(id(engine), ()):
                    return "unloaded rule"
        for ov in engine.output_variables:
            if ov.defuzzifier is None or (ov.aggregation is not None and type(ov.aggregation).__name__ not in N.REF):
                return "custom or missing operator"
        return None

    def _before(self, args, kwargs):
        engine = args[0]
        why = self.in_domain(engine)
        if why:
            self.ctx.hit(f"out_of_domain:{why}")
            return None
        batch = max([int(np.size(v.value)) for v in engine.input_variables] or [1])
        general = all(type(rb.activation).__name__ == "General" for rb in engine.rule_blocks if rb.enabled)
        if batch > 1 and not general:
            self.ctx.hit("out_of_domain:batch with a vector-incapable activation method")
            return None
        return {
            "outputs": [(np.array(ov.value, dtype=float, copy=True), np.array(ov.previous_value, dtype=float, copy=True)) for ov in engine.output_variables],
            "inputs": [np.array(v.value, dtype=float, copy=True) for v in engine.input_variables],
            "batch": batch,
        }

    def _after(self, args, kwargs, st, result, exc):
        ctx, fl, engine = self.ctx, self.fl, args[0]
        if st is None:
            return
        case = {"engine": describe(engine), "inputs": st["inputs"]}
        ctx.evaluated()
        if exc is not None:
            ctx.violation(f"process() raised {type(exc).__name__} on a ready engine", dict(case, error=repr(exc)[:300]), "no error", repr(exc)[:300])
            return
        # the terms whose value depends on the engine (Linear, Function) are terms of *this* engine: they read its variables
        for v in engine.variables:
            for t in v.terms:
                other = getattr(t, "engine", None)
                if isinstance(t, (fl.Linear, fl.Function)) and other is not None and other is not engine:
                    ctx.violation("a Linear / Function term of the engine evaluates against the variables of another engine", dict(case, variable=v.name, term=t.name), "the engine that holds the term", getattr(other, "name", None))
                    return
        select = lambda activation, deg, loaded: c08.select(*c08.params_of(fl, activation), deg, loaded)  # noqa: E731
        rejected = self.rejected.get(id(engine), set())
        for bi, ri in rejected:
            ctx.hit("piece:rule whose load was rejected")
            if engine.rule_blocks[bi].rules[ri].is_loaded():
                ctx.violation("a rule whose load was rejected reports loaded and takes part in processing", dict(case, rule=engine.rule_blocks[bi].rules[ri].text), False, True)
                return
        try:
            contrib, degrees = self.oracle.contributions(engine, select, rejected, self.weights.get(id(engine)))
        except W.RuleSyntax as ex:
            ctx.hit(f"out_of_domain:rule text outside the documented grammar ({ex})")
            return
        # (a) rule degrees
        fired_partial = False
        last_use = {id(engine.rule_blocks[bi].rules[ri]): (bi, ri) for (bi, ri) in sorted(degrees)}
        for (bi, ri), d in degrees.items():
            rule = engine.rule_blocks[bi].rules[ri]
            if last_use[id(rule)] != (bi, ri):
                continue  # the same rule object is evaluated again later in this step: the object shows its last degree only
            ctx.hit("compare:rule degree")
            if not W.agree(ctx, rule.activation_degree, d, "rule degree"):
                ctx.violation("a rule's activation degree is not weight x antecedent", dict(case, rule=rule.text, block=bi), d, rule.activation_degree)
                return
            dd = np.asarray(d, dtype=float)
            if np.any((dd > 0) & (dd < 1)):
                fired_partial = True
        # (b) fuzzy outputs
        for ov in engine.output_variables:
            mine, theirs = contrib[ov.name], ov.fuzzy.terms
            ctx.hit("compare:fuzzy output")
            if len(mine) != len(theirs):
                ctx.violation("fuzzy output has a different number of activated terms than the pipeline yields", dict(case, variable=ov.name, fuzzy=ov.fuzzy.parameters()), [(t.name, d) for t, d, _ in mine], len(theirs))
                return
            for k, ((t, d, imp), act) in enumerate(zip(mine, theirs)):
                if act.term is not t or act.implication is not imp or not W.agree(ctx, act.degree, d, "activated degree"):
                    what = "term" if act.term is not t else "implication" if act.implication is not imp else "degree"
                    ctx.violation(f"an activated term of the fuzzy output differs from the pipeline ({what})", dict(case, variable=ov.name, position=k, fuzzy=ov.fuzzy.parameters()), (t.name, d), (act.term.name, act.degree))
                    return
        # (c) output values through defuzzifier and cascade;  (d) disabled variables untouched
        nontrivial = False
        for ov, (before_value, before_prev) in zip(engine.output_variables, st["outputs"]):
            if not ov.enabled:
                ctx.hit("compare:disabled output")
                if not W.same(ov.value, before_value):
                    ctx.violation("a disabled output variable changed its value", dict(case, variable=ov.name), before_value, ov.value)
                continue
            try:
                raw = self.oracle.defuzzified(ov, contrib[ov.name], self.declared.get(id(engine), {}).get(ov.name))
            except Exception as ex:
                ctx.hit(f"out_of_domain:oracle defuzzification raises {type(ex).__name__}")
                continue
            last = rows_of(before_value)[-1]
            exp = c12.cascade(rows_of(raw), last, bool(ov.lock_previous), float(ov.default_value), bool(ov.lock_range), float(ov.minimum), float(ov.maximum))
            got = rows_of(ov.value)
            ctx.hit("compare:output value")
            if len(got) == 1 and len(exp) > 1 and all(c12.feq(e, exp[0]) for e in exp):
                got = got * len(exp)
            if len(exp) == 1 and len(got) > 1:
                exp = exp * len(got)
            if len(got) != len(exp) or not W.agree(ctx, got, exp, "output value"):
                ctx.violation("output value differs from defuzzifier(aggregated contributions) + cascade", dict(case, variable=ov.name, fuzzy=ov.fuzzy.parameters(), defuzzifier=str(ov.defuzzifier)), exp, got)
                return
            if any(not math.isnan(v) for v in got):
                nontrivial = True
        # evidence
        kinds = {type(rb.activation).__name__ for rb in engine.rule_blocks if rb.enabled}
        for k in kinds:
            ctx.hit(f"activation:{k}")
        for ov in engine.output_variables:
            ctx.hit(f"defuzzifier:{type(ov.defuzzifier).__name__}")
        for rb in engine.rule_blocks:
            if rb.enabled:
                ctx.hit(f"conjunction:{type(rb.conjunction).__name__}")
                ctx.hit(f"implication:{type(rb.implication).__name__}")
        ctx.hit(f"rows:{'batch' if st['batch'] > 1 else 'scalar'}")
        if any(not rb.enabled for rb in engine.rule_blocks):
            ctx.hit("piece:disabled rule block")
        if any(not r.enabled for rb in engine.rule_blocks for r in rb.rules):
            ctx.hit("piece:disabled rule")
        if any(not v.enabled for v in engine.variables):
            ctx.hit("piece:disabled variable")
        if any(r.weight != 1.0 for rb in engine.rule_blocks for r in rb.rules):
            ctx.hit("piece:weighted rule")
        outs = {ov.name for ov in engine.output_variables}
        if any(f" {o} is " in f" {r.antecedent.text} " or f"({o} is " in r.antecedent.text for rb in engine.rule_blocks for r in rb.rules for o in outs):
            ctx.hit("piece:output variable in antecedent")
        if fired_partial and nontrivial:
            ctx.nontrivial(describe(engine), tuple(tuple(rows_of(v)) for v in st["inputs"]))


def set_inputs(engine, block, in_place=False, form=0):
    """block: list of rows; one row -> plain floats, several rows -> arrays (in_place: refill the arrays the variables
    already hold instead of assigning new ones - the same objects with new contents)"""
    if in_place and len(block) > 1 and all(isinstance(v.value, np.ndarray) and np.shape(v.value) == (len(block),) and not v.lock_range and v.value.flags.writeable for v in engine.input_variables):
        arr = np.array(block, dtype=float)
        for k, v in enumerate(engine.input_variables):
            v.value[:] = arr[:, k]
        return True
    if len(block) == 1:
        for v, x in zip(engine.input_variables, block[0]):
            v.value = FORMS1[form % len(FORMS1)](x)
    elif form % 5 == 4 and len(engine.input_variables) > 0:
        engine.input_values = np.array(block, dtype=float)  # the engine-level matrix
    else:
        arr = np.array(block, dtype=float)
        for k, v in enumerate(engine.input_variables):
            col = arr[:, k]
            if form % 5 == 1:
                wide = np.empty(2 * len(col))
                wide[::2] = col
                col = wide[::2]  # a non-contiguous view
            elif form % 5 == 2:
                col = col.copy()
                col.flags.writeable = False  # a read-only array
            elif form % 5 == 3:
                col = np.asfortranarray(col.reshape(-1, 1))[:, 0]  # a column of a Fortran-ordered matrix
            v.value = col


FORMS1 = [float, float, np.float64, lambda x: np.array(x), lambda x: np.array([x]), lambda x: int(x) if (x == x and abs(x) < 1e9 and float(x).is_integer()) else float(x)]


def run(ctx):
    fl = import_library()
    nengines = ctx.scale(300, 20000)
    nrows = ctx.scale(15, 24)
    ctx.rule = (
        f"every Engine.process call observed on a ready engine. Workload: {nengines} generated engines (1-3 inputs, 1-2 outputs, 1-2 rule blocks, "
        "1-6 rules, nested and/or antecedents with hedges and `any`, weights, every registered T-norm/S-norm/defuzzifier, enabled/disabled "
        f"rules, blocks and variables, output variables in antecedents, lock/default settings; General and the 6 other activation methods) x {nrows} "
        "rows each (interior, bounds, term breakpoints +-1 ulp, out of range, +-inf, NaN) as scalar rows and batches of 2-5; plus the shipped "
        "examples. distinct_nontrivial = distinct (engine, rows) where some rule fired with a degree in (0,1) and an enabled output is not NaN"
    )
    ctx.assumptions += [
        "leaves (term.membership, norm.compute, hedge.hedge, defuzzifier.defuzzify on an oracle-owned term) are the library's own, judged by C03/C04/C05/C09/C10; wiring is the oracle's",
        "comparison is bit-exact",
        "out of domain (counted, not judged): engines that are not ready, duplicate term names in a variable (example `juggler`), Function terms over an output variable's value, custom operators",
    ]
    funcs = {"Engine.process": fl.Engine.process, "General.activate": fl.General.activate, "Rule.activate_with": fl.Rule.activate_with, "Rule.trigger": fl.Rule.trigger, "Consequent.modify": fl.Consequent.modify, "Aggregated.membership": fl.Aggregated.membership, "Activated.membership": fl.Activated.membership, "OutputVariable.defuzzify": fl.OutputVariable.defuzzify, "Antecedent.activation_degree": fl.Antecedent.activation_degree}
    ctx.excuse = lambda mechanism, observed, note: excusable(observed)
    with Reach(funcs) as reach, Probe() as probe:
        mon = PipelineMonitor(ctx, fl)
        mon.install(probe)
        held = Held(ctx)
        for i, rnd in ctx.cases("engines", nengines):
            general = i % 3 != 2
            spec = E.gen_engine(rnd, activations=("General",) if general else tuple(c08.METHODS), d=rnd.choice([1, 3, 3]), allow_output_antecedent=general, free_weights=True, share_defuzzifier=True, routes=True, broken_rules=True, shared_rules=True, big_blocks=0.04 if general else 0, odd_names=0.15)
            if spec.get("odd_names"):
                ctx.hit("workload:names that differ only in case, keywords as names")
            if spec.get("big"):
                ctx.hit("workload:rule block with more than 32 rules")
            if any("same_rules_as" in rb or any("same_rule_as" in r for r in rb["rules"]) for rb in spec["blocks"]):
                ctx.hit("workload:rule objects shared between blocks or repeated in a block")
            spec["rule_containers"] = True
            try:
                engine = E.build(fl, spec)
            except E.SpecMismatch as ex:
                ctx.evaluated()
                ctx.violation("a rule block does not hold the rules it was built from", {"engine": spec["name"]}, "the rules given", str(ex))
                continue
            except Exception as ex:
                ctx.hit(f"inconclusive:generated engine does not build: {type(ex).__name__}: {str(ex)[:80]}")
                continue
            shared = spec.get("shared_defuzzifier")
            mon.rejected = {id(engine): E.rejected_rules(spec)}
            mon.weights = {id(engine): {(bi, ri): r["weight"] for bi, rb in enumerate(spec["blocks"]) for ri, r in enumerate(rb["rules"])}}
            mon.declared = {id(engine): {o["name"]: (dict(cls=shared, type="Automatic") if (shared and o["defuzzifier"] and "type" in o["defuzzifier"]) else o["defuzzifier"]) for o in spec["outputs"]}}
            rows = E.rows(rnd, spec, nrows)
            k = 0
            last_size = 0
            held.clear()
            # every tenth engine lives in a process whose state is not the default one (warnings are errors, the library logs at
            # DEBUG, other NumPy print options); one in four is looked at between its steps
            envname = ENVIRONMENTS[(i // 10) % len(ENVIRONMENTS)] if i % 10 == 7 else None
            watched = rnd.random() < 0.25
            while k < len(rows):
                size = 1 if (not general or rnd.random() < 0.5) else (last_size if (last_size > 1 and rnd.random() < 0.5) else rnd.choice([2, 3, 5]))
                last_size = size
                block = rows[k : k + size]
                k += size
                form = rnd.randrange(30)
                ctx.hit(f"input_form:{'single' if len(block) == 1 else 'batch'}:{form % (len(FORMS1) if len(block) == 1 else 5)}")
                if set_inputs(engine, block, in_place=rnd.random() < 0.3, form=form):
                    ctx.hit("event:input arrays refilled in place")
                if watched:
                    observe(fl, engine, rnd, ctx, None)
                with hostile(fl, envname, ctx):
                    try:
                        engine.process()
                    except Exception:
                        pass  # judged by the monitor
                # what the previous step handed out (values, fuzzy outputs, degrees) stays what it was
                held.check("a later process()")
                for ov in engine.output_variables:
                    held.keep("OutputVariable.value", ov.value)
                if watched:
                    observe(fl, engine, rnd, ctx, held)
            if i < 2:
                ctx.sample("engine", {"fll": describe(engine), "rows": rows[:3], "outputs": [ov.value for ov in engine.output_variables]})
        examples(ctx, fl)
        probe.report(ctx)
        reach.report(ctx)
    ctx.require("hook:Engine.process", "compare:rule degree", "compare:fuzzy output", "compare:output value", "compare:disabled output", "rows:batch", "rows:scalar", "glue:Activated.membership", "glue:Aggregated.membership")
    ctx.require("workload:names that differ only in case, keywords as names", "law:values handed out earlier are left alone", "event:observer between steps", *[f"environment:{e}" for e in ENVIRONMENTS])
    ctx.require("workload:rule block with more than 32 rules", "workload:rule objects shared between blocks or repeated in a block", "piece:rule whose load was rejected", "piece:disabled rule block", "piece:disabled rule", "piece:disabled variable", "piece:weighted rule", "piece:output variable in antecedent")
    if ctx.nshards == 1:
        for m in c08.METHODS:
            ctx.require(f"activation:{m}")
        for d in E.INTEGRAL + ["WeightedAverage", "WeightedSum"]:
            ctx.require(f"defuzzifier:{d}")


def examples(ctx, fl, rows_per_example=None):
    """the shipped example engines, driven over their input ranges with the monitors attached"""
    import fuzzylite.examples  # noqa: F401

    modules = list(fl.Op.glob_examples("module"))
    n = rows_per_example or ctx.scale(8, 64)
    for i, rnd in ctx.cases("examples", len(modules)):
        module = modules[i]
        try:
            import inspect

            cls = [c for _, c in inspect.getmembers(module, inspect.isclass) if c.__module__ == module.__name__][0]
            engine = cls().engine
        except Exception as ex:
            ctx.hit(f"examples:not loadable:{type(ex).__name__}")
            continue
        ctx.hit("examples:engines")
        rows = []
        for _ in range(n):
            rows.append([rnd.uniform(v.minimum, v.maximum) if (math.isfinite(v.minimum) and math.isfinite(v.maximum)) else rnd.uniform(-1, 1) for v in engine.input_variables])
        for r in rows[: n // 2]:
            set_inputs(engine, [r])
            try:
                engine.process()
            except Exception:
                pass
        set_inputs(engine, rows[n // 2 :])
        try:
            engine.process()
        except Exception:
            pass


def passive(ctx, fl, probe):
    """attach this property's always-on monitor to a foreign workload (the repository's test-suite, see vf/pytest_plugin.py)"""
    mon = PipelineMonitor(ctx, fl)
    mon.install(probe)
    return None
