"""C18 — FuzzyLite Dataset export is a faithful tabulation of the engine.

Deciding step: monitors on FldExporter.to_string_from_scope / to_string_from_reader (and Op.increment) take a deep copy
of the engine on entry and check the returned text offline: header, number of rows (integer root for `all
variables`), each row's inputs against the monitor's own grid (lexicographic, last input fastest, min..max inclusive)
and each row's outputs against a row-by-row float replay on the restarted copy, printed with the configured decimals."""
from __future__ import annotations

import copy
import io
import math

import numpy as np

from ..core import import_library
from ..gen import engines as E
from ..probe import Probe, Reach, plain_function

WORKERS = {"quick": 1, "thorough": 16}
nan = math.nan


def iroot(v, n):
    """largest integer k with k**n <= v (integers only)"""
    k = 1
    while (k + 1) ** n <= v:
        k += 1
    return k


def fmt(x, d):
    return f"{x:.{d}f}"


class FldMonitor:
    def __init__(self, ctx, fl):
        self.ctx, self.fl = ctx, fl

    def install(self, probe):
        fl = self.fl
        probe.wrap(fl.FldExporter, "to_string_from_scope", before=self._before, after=self._after_scope)
        probe.wrap(fl.FldExporter, "to_string_from_reader", before=self._before_reader, after=self._after_reader)
        probe.wrap(fl.Op, "increment", after=self._after_increment)

    def _after_increment(self, args, kwargs, token, result, exc):
        self.ctx.hit("event:Op.increment")

    def _before(self, args, kwargs):
        engine = args[1]
        try:
            return {"shadow": copy.deepcopy(engine), "decimals": self.fl.settings.decimals, "held_values": [np.array(v.value, dtype=float, copy=True) for v in engine.input_variables]}
        except Exception as ex:
            self.ctx.hit(f"inconclusive:engine cannot be deep-copied ({type(ex).__name__})")
            return None

    def _before_reader(self, args, kwargs):
        st = self._before(args, kwargs)
        if st is None:
            return None
        reader = args[2]
        pos = reader.tell()
        st["text"] = reader.read()
        reader.seek(pos)
        return st

    # ---- expected table ---------------------------------------------------------------------------------------
    def replay(self, shadow, rows, sample=None):
        """row-by-row float processing on the restarted copy; returns {row index: [outputs]}"""
        shadow.restart()
        out = {}
        sequential = any(ov.lock_previous for ov in shadow.output_variables)
        todo = range(len(rows)) if (sequential or sample is None) else sample
        for j in todo:
            for v, x in zip(shadow.input_variables, rows[j]):
                v.value = float(x)
            shadow.process()
            out[j] = ([float(np.asarray(v.value)) for v in shadow.input_variables], [float(np.asarray(ov.value)) for ov in shadow.output_variables])
        return out

    def check_table(self, exporter, shadow, text, rows, d, case, exact_inputs):
        ctx = self.ctx
        lines = text.split("\n")
        if lines and lines[-1] == "":
            lines = lines[:-1]
        sep = exporter.separator
        names = ([v.name for v in shadow.input_variables] if exporter.input_values else []) + ([v.name for v in shadow.output_variables] if exporter.output_values else [])
        if exporter.headers:
            if not lines or lines[0] != sep.join(names):
                ctx.violation("header is not the selected input/output variable names", case, sep.join(names), lines[0] if lines else None)
                return False
            lines = lines[1:]
        ncols = len(names)
        if ncols == 0:
            ctx.hit("out_of_domain:no column selected")
            return False
        if len(lines) != len(rows):
            mech = "number of rows differs from the number of grid points"
            if len(lines) == 1 and not exporter.input_values:
                mech += " (a single row: every output variable holds a single value for the whole batch)"
            elif case.get("scope") == "AllVariables" and case["k_per_input"] ** case["inputs"] == case["values"]:
                mech += " (requested size is a perfect power of the number of inputs)"
            ctx.violation(mech, dict(case, expected_rows=len(rows)), len(rows), len(lines))
            return False
        sequential = any(ov.lock_previous for ov in shadow.output_variables)
        if sequential and len(rows) > 600:
            ctx.hit("skipped:outputs of a long lock-previous table not replayed")
            sample = []
        elif len(rows) <= 96 or sequential:
            sample = list(range(len(rows)))
        else:
            rnd = __import__("random").Random(len(rows) * 7919 + ctx.seed)
            sample = sorted(set([0, 1, len(rows) - 1, len(rows) - 2] + rnd.sample(range(len(rows)), 92)))
        try:
            exp = self.replay(shadow, rows, sample) if (exporter.output_values and sample) else {}
        except Exception as ex:
            ctx.hit(f"out_of_domain:float replay raises {type(ex).__name__}")
            exp = {}
        nin = len(shadow.input_variables)
        half = 0.5 * 10.0**-d
        for j, line in enumerate(lines):
            cells = line.split(sep) if sep != " " else line.split()
            if len(cells) != ncols:
                ctx.violation("a row does not have one cell per selected variable", dict(case, row=j, line=line), ncols, len(cells))
                return False
            ctx.evaluated()
            k = 0
            if exporter.input_values:
                for i in range(nin):
                    v = shadow.input_variables[i]
                    want = rows[j][i]
                    if v.lock_range and not math.isnan(want):
                        want = min(max(want, v.minimum), v.maximum)
                    got = cells[k]
                    k += 1
                    if got == fmt(want, d):
                        continue
                    try:
                        g = float(got)
                    except ValueError:
                        g = nan
                    if not exact_inputs and not math.isnan(g) and abs(g - want) <= half + 1e-12 * max(1.0, abs(want)) and len(got.split(".")[-1] if d else "") == d:
                        ctx.hit("ambiguous:input printed one unit in the last place away (grid arithmetic)")
                        continue
                    ctx.violation("a row's input value is not the grid point (lexicographic order, last input fastest, min..max inclusive)", dict(case, row=j, input=v.name), fmt(want, d), got)
                    return False
            if exporter.output_values and j in exp:
                for o, ov in enumerate(shadow.output_variables):
                    want = exp[j][1][o]
                    got = cells[k + o]
                    if got != fmt(want, d):
                        ctx.violation("a row's output value is not what the engine produces for that row", dict(case, row=j, output=ov.name, inputs=rows[j]), fmt(want, d), got)
                        return False
                ctx.hit("compare:outputs of a row")
        return True

    # ---- scope --------------------------------------------------------------------------------------------------
    def _after_scope(self, args, kwargs, st, result, exc):
        ctx, fl = self.ctx, self.fl
        if st is None:
            return
        exporter, engine = args[0], args[1]
        values = args[2] if len(args) > 2 else kwargs.get("values", 1024)
        scope = args[3] if len(args) > 3 else kwargs.get("scope", fl.FldExporter.ScopeOfValues.AllVariables)
        active = args[4] if len(args) > 4 else kwargs.get("active_variables")
        shadow, d = st["shadow"], st["decimals"]
        n = len(shadow.input_variables)
        held = None
        if active is not None and len(active) != n:
            # values are generated for the active variables only; every other input variable stays at the value it holds
            held = {}
            for j, (iv, sv) in enumerate(zip(engine.input_variables, shadow.input_variables)):
                if not any(iv is a for a in active):
                    held[j] = float(np.asarray(st["held_values"][j], dtype=float).ravel()[-1])
            ctx.hit("piece:subset of active variables")
        if n == 0 or values < 1:
            ctx.hit("out_of_domain:no input variables or no values")
            return
        if not all(math.isfinite(v.minimum) and math.isfinite(v.maximum) for j, v in enumerate(shadow.input_variables) if not (held and j in held)):
            ctx.hit("out_of_domain:infinite input range")
            return
        each = scope == fl.FldExporter.ScopeOfValues.EachVariable
        k = values if each else iroot(values, n)
        case = {"engine": shadow.name, "inputs": n, "values": values, "scope": scope.name, "k_per_input": k, "decimals": d, "separator": exporter.separator, "headers": exporter.headers, "input_values": exporter.input_values, "output_values": exporter.output_values}
        ctx.evaluated()
        if exc is not None:
            mech = f"export raises {type(exc).__name__}"
            if "all the input array dimensions" in str(exc) or "must match exactly" in str(exc):
                mech += " (every output variable holds a single value for the whole batch)"
            ctx.violation(mech, dict(case, error=repr(exc)[:300], fll=str(shadow)[:1500]), "a dataset", repr(exc)[:300])
            return
        # own grid
        rows, idx = [], [0] * n
        axes = []
        for j, v in enumerate(shadow.input_variables):
            if held and j in held:
                axes.append([held[j]])
                continue
            dx = (v.maximum - v.minimum) / max(1.0, k - 1)
            axes.append([v.minimum + i * dx for i in range(k)])
        while True:
            rows.append([axes[i][idx[i]] for i in range(n)])
            pos = n - 1
            while pos >= 0 and idx[pos] == len(axes[pos]) - 1:
                idx[pos] = 0
                pos -= 1
            if pos < 0:
                break
            idx[pos] += 1
        ctx.hit(f"scope:{scope.name}")
        ctx.hit(f"inputs:{n}")
        if not each:
            ctx.hit("piece:perfect power" if k**n == values else "piece:between powers")
        ok = self.check_table(exporter, shadow, result, rows, d, case, exact_inputs=False)
        if ok and len(rows) >= 2:
            ctx.nontrivial(str(shadow), values, scope.name, d, exporter.separator, exporter.headers, exporter.input_values, exporter.output_values)

    # ---- reader -------------------------------------------------------------------------------------------------
    def _after_reader(self, args, kwargs, st, result, exc):
        ctx = self.ctx
        if st is None:
            return
        exporter = args[0]
        skip = args[3] if len(args) > 3 else kwargs.get("skip_lines", 0)
        shadow, d = st["shadow"], st["decimals"]
        rows = []
        for i, line in enumerate(st["text"].splitlines()):
            if i < skip:
                continue
            line = line.strip()
            if not line or line.startswith("#"):
                continue
            try:
                rows.append([float(x) for x in line.split()])
            except ValueError:
                ctx.hit("out_of_domain:reader line is not numeric")
                return
        case = {"engine": shadow.name, "reader": st["text"][:400], "skip_lines": skip, "decimals": d}
        ctx.evaluated()
        ctx.hit("scope:reader")
        if exc is not None:
            if not rows or any(len(r) < len(shadow.input_variables) for r in rows) or len({len(r) for r in rows}) > 1:
                ctx.hit("out_of_domain:reader without rows or with short/ragged rows")
                return
            mech = f"export from a reader raises {type(exc).__name__}"
            if "must match exactly" in str(exc):
                mech += " (every output variable holds a single value for the whole batch)"
            ctx.violation(mech, dict(case, error=repr(exc)[:300]), "a dataset", repr(exc)[:300])
            return
        if not rows:
            ctx.hit("out_of_domain:reader without rows")
            return
        if any(len(r) < len(shadow.input_variables) for r in rows):
            # a row that does not hold a value for every input variable cannot be tabulated: nothing but a refusal is faithful
            ctx.hit("piece:reader row with too few values")
            ctx.violation("a reader row with fewer values than there are input variables is accepted (the values are re-flowed into other rows)", case, "an error", str(result)[:300])
            return
        if len({len(r) for r in rows}) > 1:
            ctx.hit("piece:reader rows of different lengths accepted")
        if self.check_table(exporter, shadow, result, [r[: len(shadow.input_variables)] for r in rows], d, case, exact_inputs=True):
            ctx.nontrivial("reader", st["text"], skip, d)


def run(ctx):
    fl = import_library()
    ctx.rule = (
        "every FldExporter.to_string_from_scope / to_string_from_reader call observed. Workload: generated engines with 1-4 input variables "
        f"(General activation, all defuzzifier kinds, lock settings, disabled variables, outputs no rule concludes on) x requested sizes v "
        f"(all variables: v = 1..{ctx.scale(40, 2000)} plus every perfect square/cube/4th power <= 2000 and its two neighbours; each variable: v up to the size "
        "that keeps the table below ~4000 rows) x header/inputs/outputs switches x separators x decimals 0..9; reader texts with comments, "
        "blank lines and skipped lines. distinct_nontrivial = distinct (engine, v, scope, decimals, separator, switches) tables with >= 2 rows that were fully checked"
    )
    ctx.assumptions += ["outputs are replayed row by row in float mode on a restarted deep copy (batch == float is C02's business)", "inputs are compared as printed text with the monitor's own grid min + i*(max-min)/(k-1); a difference of one unit in the last place is counted ambiguous", "tables above 96 rows: 96 sampled rows are replayed when lock-previous is off (processing is history-free, C13); all rows otherwise (up to 600)"]
    funcs = {"FldExporter.write_from_scope": fl.FldExporter.write_from_scope, "FldExporter.write": fl.FldExporter.write, "FldExporter.write_from_reader": fl.FldExporter.write_from_reader, "Op.increment": plain_function(fl.Op, "increment")}
    with Reach(funcs) as reach, Probe() as probe:
        mon = FldMonitor(ctx, fl)
        mon.install(probe)
        Scope = fl.FldExporter.ScopeOfValues
        powers = sorted({k**n + dv for n in (2, 3, 4) for k in range(2, 46) for dv in (-1, 0, 1) if 1 <= k**n + dv <= 2000})
        nengines = ctx.scale(50, 5000)
        for i, rnd in ctx.cases("scope", nengines):
            nin = 1 + i % 4
            spec = E.gen_engine(rnd, activations=("General",), max_inputs=nin, d=3, resolutions=[5, 10, 37], max_rules=4, max_depth=2)
            while len(spec["inputs"]) != nin:
                spec = E.gen_engine(rnd, activations=("General",), max_inputs=nin, d=3, resolutions=[5, 10, 37], max_rules=4, max_depth=2)
            if rnd.random() < 0.25:  # an output variable no rule concludes on
                extra = dict(spec["outputs"][0], name="idle", terms=[dict(t, name=f"z{j}") for j, t in enumerate(spec["outputs"][0]["terms"])])
                spec["outputs"].append(extra)
            whole = i % 5 == 3
            if whole:  # ranges on whole numbers, held as Python or NumPy integers (InputVariable("x", minimum=0, maximum=10))
                for v in spec["inputs"]:
                    v["minimum"] = float(math.floor(v["minimum"]))
                    v["maximum"] = v["minimum"] + rnd.choice([1.0, 3.0, 10.0])
            try:
                engine = E.build(fl, spec)
            except Exception as ex:
                ctx.hit(f"inconclusive:generated engine does not build: {type(ex).__name__}")
                continue
            if whole:
                for v in engine.input_variables:
                    kind = rnd.choice([int, int, np.int64, np.float32])
                    v.minimum, v.maximum = kind(v.minimum), kind(v.maximum)
                ctx.hit("ranges held as integers")
            if i % 4 == 1:
                # the loaded engine is edited before it is tabulated: rule texts exchanged, a term replaced by another object of the
                # same name - the dataset is that of the engine as it is described now
                rules = [r for rb in engine.rule_blocks for r in rb.rules]
                if len(rules) >= 2:
                    a, b = rnd.sample(rules, 2)
                    a.text, b.text = b.text, a.text
                v = rnd.choice(engine.input_variables)
                if v.terms and all(math.isfinite(x) for x in (v.minimum, v.maximum)):
                    v.terms[0] = fl.Triangle(v.terms[0].name, v.minimum, 0.5 * (v.minimum + v.maximum), v.maximum)
                ctx.hit("event:engine edited after loading, before export")
            for rep in range(ctx.scale(4, 6)):
                each = rnd.random() < 0.4
                if each:
                    cap = {1: 400, 2: 40, 3: 12, 4: 6}[nin]
                    v = rnd.randint(1, cap)
                else:
                    v = rnd.choice(powers) if rnd.random() < 0.6 else rnd.randint(1, ctx.scale(40, 2000))
                d = rnd.choice([0, 1, 2, 3, 3, 4, 6, 9])
                exporter = fl.FldExporter(separator=rnd.choice([" ", " ", ",", "\t", "; "]), headers=rnd.random() < 0.8, input_values=rnd.random() < 0.85, output_values=rnd.random() < 0.9)
                if not (exporter.input_values or exporter.output_values):
                    exporter.output_values = True
                # now and then values are generated for some of the input variables only (a slice of the input space): the others
                # stay at the value they hold - twice in a row, with another value held the second time
                active, again = None, 1
                finite_in = [iv for iv in engine.input_variables if math.isfinite(float(iv.minimum)) and math.isfinite(float(iv.maximum))]
                if nin >= 2 and len(finite_in) == nin and rnd.random() < 0.35:
                    active = set(rnd.sample(engine.input_variables, rnd.randint(1, nin - 1)))
                    again = 2
                    ctx.hit("workload:values generated for a subset of the input variables")
                for turn in range(again):
                  if active is not None:
                    for iv in engine.input_variables:
                        if iv not in active:
                            x = rnd.uniform(float(iv.minimum), float(iv.maximum))
                            iv.value = rnd.choice([x, np.array([0.0, x])])
                  with fl.settings.context(decimals=d):
                    scope = Scope.EachVariable if each else Scope.AllVariables
                    way = rnd.choice(["string", "string", "file", "writer"]) if active is None else "string"
                    try:
                        if way == "string" and active is not None:
                            text = exporter.to_string_from_scope(engine, v, scope, active)  # judged by the monitor
                        elif way == "string":
                            text = exporter.to_string_from_scope(engine, v, scope)  # judged by the monitor
                        else:
                            # other entry points produce the text outside the hooked function: hand it to the same checker
                            st = mon._before((exporter, engine), {})
                            if way == "file":
                                import tempfile
                                from pathlib import Path

                                with tempfile.TemporaryDirectory(prefix="vf-c18-") as tmpd:
                                    path = Path(tmpd) / "engine.fld"
                                    exporter.to_file_from_scope(path, engine, v, scope)
                                    text = path.read_text()
                            else:
                                writer = io.StringIO()
                                exporter.write_from_scope(engine, writer, v, scope)
                                text = writer.getvalue()
                            with probe.quiet():
                                mon._after_scope((exporter, engine, v, scope), {}, st, text, None)
                        ctx.hit(f"entry:{way}")
                    except Exception:
                        text = None  # judged by the monitor (string entry); other entries: counted
                        if way != "string":
                            ctx.hit("entry:raised outside the hooked function")
                if rep == 1 and i % 3 == 0:
                    # between two exports the range of an input variable is edited by assigning its bounds directly (narrowed,
                    # or collapsed to a single point): the next dataset is that of the engine as it is now
                    iv = rnd.choice(engine.input_variables)
                    if math.isfinite(float(iv.minimum)) and math.isfinite(float(iv.maximum)):
                        lo_, hi_ = float(iv.minimum), float(iv.maximum)
                        if (i // 3) % 3 == 0:
                            iv.maximum = iv.minimum = round(0.5 * (lo_ + hi_), 3)
                            ctx.hit("event:range of an input variable collapsed to a single point")
                        elif rnd.random() < 0.5:
                            iv.maximum = round(lo_ + 0.5 * (hi_ - lo_), 3)
                        else:
                            iv.minimum = round(lo_ + 0.25 * (hi_ - lo_), 3)
                        ctx.hit("event:bounds of an input variable assigned between two exports")
                if i < 2 and rep == 0 and text:
                    ctx.sample("scope", {"inputs": nin, "values": v, "scope": "each" if each else "all", "decimals": d, "first_lines": text.split("\n")[:4]})
        # an input variable and an output variable of one name (the measured and the commanded `level`): one column each
        for i, rnd in ctx.cases("shared names", ctx.scale(12, 240)):
            name = rnd.choice(["level", "power", "T"])
            ivs = [fl.InputVariable(name, minimum=0.0, maximum=1.0, terms=[fl.Triangle("low", 0.0, 0.25, 0.5)]), fl.InputVariable("rate", minimum=-1.0, maximum=1.0, terms=[fl.Ramp("up", -1.0, 1.0), fl.Ramp("down", 1.0, -1.0)])]
            ov = fl.OutputVariable(name, minimum=0.0, maximum=2.0, aggregation=fl.Maximum(), defuzzifier=fl.Centroid(10), terms=[fl.Triangle("more", 0.0, 1.5, 2.0), fl.Triangle("less", 0.0, 0.5, 2.0)])
            rb = fl.RuleBlock("rb", conjunction=fl.Minimum(), disjunction=fl.Maximum(), implication=fl.Minimum(), activation=fl.General(), rules=[fl.Rule.create(f"if rate is up then {name} is more"), fl.Rule.create(f"if rate is down then {name} is less")])
            try:
                engine = fl.Engine("shared", input_variables=ivs, output_variables=[ov], rule_blocks=[rb])
            except Exception as ex:
                ctx.hit(f"inconclusive:shared-name engine does not build: {type(ex).__name__}")
                continue
            for iv_on, ov_on in ((True, True), (True, False), (False, True)):
                try:
                    fl.FldExporter(input_values=iv_on, output_values=ov_on, headers=rnd.random() < 0.8).to_string_from_scope(engine, rnd.choice([9, 16, 25]), Scope.AllVariables)  # judged by the monitor
                except Exception:
                    pass
            ctx.hit("workload:input and output variable of one name")
        # all perfect powers for 2-4 inputs: row counts (cheap engines)
        cheap = {}
        combos = [(n, v) for n in (2, 3, 4) for v in powers]
        for i, rnd in ctx.cases("powers", len(combos) if ctx.thorough else len(combos) // 4):
            n, v = combos[i if ctx.thorough else (i * 4 + rnd.randrange(4)) % len(combos)]
            if n not in cheap:
                ivs = [fl.InputVariable(f"i{k}", minimum=0.0, maximum=1.0 + k, terms=[fl.Ramp("t", 0.0, 1.0 + k)]) for k in range(n)]
                ov = fl.OutputVariable("o", minimum=0.0, maximum=1.0, aggregation=fl.Maximum(), defuzzifier=fl.Centroid(5), terms=[fl.Triangle("u", 0.0, 0.5, 1.0)])
                rb = fl.RuleBlock("rb", conjunction=fl.Minimum(), disjunction=fl.Maximum(), implication=fl.Minimum(), activation=fl.General(), rules=[fl.Rule.create("if i0 is t then o is u")])
                cheap[n] = fl.Engine("cheap", input_variables=ivs, output_variables=[ov], rule_blocks=[rb])
            try:
                fl.FldExporter().to_string_from_scope(cheap[n], v, Scope.AllVariables)
            except Exception:
                pass
        # tables of several thousand rows (batch-wise writing)
        for i, rnd in ctx.cases("large tables", ctx.scale(2, 24)):
            nin = 1 + i % 2
            spec = E.gen_engine(rnd, activations=("General",), max_inputs=nin, d=3, resolutions=[5], max_rules=3, max_depth=1, locks=False)
            while len(spec["inputs"]) != nin:
                spec = E.gen_engine(rnd, activations=("General",), max_inputs=nin, d=3, resolutions=[5], max_rules=3, max_depth=1, locks=False)
            try:
                engine = E.build(fl, spec)
            except Exception:
                continue
            v = rnd.choice([5000, 4097, 9000]) if nin == 1 else rnd.choice([71, 100])  # each variable: 71^2 = 5041, 100^2 = 10000 rows
            with fl.settings.context(decimals=3):
                try:
                    fl.FldExporter().to_string_from_scope(engine, v, Scope.EachVariable)  # judged by the monitor
                except Exception:
                    pass
            ctx.hit("workload:table of more than 4096 rows")
        # reader
        for i, rnd in ctx.cases("reader", ctx.scale(250, 4000)):
            spec = E.gen_engine(rnd, activations=("General",), max_inputs=3, d=3, resolutions=[5, 10], max_rules=3, max_depth=1)
            try:
                engine = E.build(fl, spec)
            except Exception:
                continue
            lines, skip = [], rnd.choice([0, 0, 1, 2])
            for s in range(skip):
                lines.append(rnd.choice(["this line is skipped", " ".join(v["name"] for v in spec["inputs"]), ""]))
            for _ in range(rnd.randint(1, 12)):
                c = rnd.random()
                if c < 0.15:
                    lines.append(rnd.choice(["", "   ", "\t"]))
                elif c < 0.3:
                    lines.append(rnd.choice(["# a comment", "   # indented comment", "#1 2 3"]))
                else:
                    row = E.finite_rows(rnd, spec, 1)[0]
                    lines.append(rnd.choice(["", "  "]) + " ".join(f"{x:.6f}" for x in row) + rnd.choice(["", " ", "   "]))
            data = [k for k, ln in enumerate(lines) if k >= skip and ln.strip() and not ln.strip().startswith("#")]
            shape = rnd.random()
            if shape < 0.35:
                # the rows also carry output columns, as every exported dataset does (only the input columns are read)
                extra = rnd.randint(1, 3)
                for k in data:
                    lines[k] = lines[k].rstrip() + "".join(f" {rnd.uniform(-1, 1):.3f}" for _ in range(extra))
                ctx.hit("reader:rows with output columns")
            elif shape < 0.55 and len(data) >= 2:
                # ragged: values missing from some rows and surplus in others (refused, or the rows are read as they are given)
                n_in = len(spec["inputs"])
                moved = 0
                for k in rnd.sample(data, rnd.randint(1, len(data))):
                    toks = lines[k].split()
                    if rnd.random() < 0.5 and len(toks) > 1:
                        lines[k] = " ".join(toks[:-1])
                        moved += 1
                    else:
                        lines[k] = " ".join(toks + [f"{rnd.uniform(-1, 1):.3f}"] * (moved if moved and rnd.random() < 0.7 else 1))
                        moved = 0
                ctx.hit("reader:ragged rows")
            if data and rnd.random() < 0.15:
                # values that are not finite, written with letters (nan, inf), first thing on a row
                k = rnd.choice(data[:2])
                toks = lines[k].split()
                toks[0] = rnd.choice(["nan", "inf", "NaN", "-inf", "Infinity"])
                lines[k] = " ".join(toks)
                ctx.hit("reader:row starting with a non-finite value")
            text = "\n".join(lines) + rnd.choice(["", "\n"])
            with fl.settings.context(decimals=rnd.choice([1, 3, 6])):
                try:
                    if skip == 0 and rnd.random() < 0.5:
                        fl.FldExporter(headers=rnd.random() < 0.7).to_string_from_reader(engine, io.StringIO(text))  # skip_lines left to its default
                        ctx.hit("reader:skip_lines left to its default")
                    elif i % 4 == 1:
                        # a reader that has already been read from (a preamble consumed by the caller): the dataset is that of
                        # the lines the reader still has to give
                        preamble = rnd.choice(["# produced by a logger\n", "0.5 0.5 0.5\n# done\n", "temperature humidity\n\n"])
                        reader = io.StringIO(preamble + text)
                        for _ in range(preamble.count("\n")):
                            reader.readline()
                        fl.FldExporter(headers=rnd.random() < 0.7).to_string_from_reader(engine, reader, skip_lines=skip)
                        ctx.hit("reader:handed over after a part of it was read")
                    else:
                        fl.FldExporter(headers=rnd.random() < 0.7).to_string_from_reader(engine, io.StringIO(text), skip_lines=skip)
                except Exception:
                    pass
            if i < 2:
                ctx.sample("reader", {"reader": text, "skip_lines": skip})
        probe.report(ctx)
        reach.report(ctx)
    ctx.require("event:bounds of an input variable assigned between two exports", "event:range of an input variable collapsed to a single point")
    ctx.require("workload:input and output variable of one name", "workload:values generated for a subset of the input variables", "piece:subset of active variables")
    ctx.require("ranges held as integers", "reader:handed over after a part of it was read", "reader:rows with output columns", "reader:ragged rows", "reader:row starting with a non-finite value", "reader:skip_lines left to its default", "workload:table of more than 4096 rows", "event:engine edited after loading, before export")
    ctx.require("hook:FldExporter.to_string_from_scope", "hook:FldExporter.to_string_from_reader", "scope:AllVariables", "scope:EachVariable", "scope:reader", "compare:outputs of a row", "piece:perfect power", "piece:between powers", "inputs:1", "inputs:2", "inputs:3", "inputs:4", "entry:file", "entry:writer")


def passive(ctx, fl, probe):
    """attach this property's always-on monitor to a foreign workload (the repository's test-suite, see vf/pytest_plugin.py)"""
    mon = FldMonitor(ctx, fl)
    mon.install(probe)
    return None
