"""C03 — Membership functions match their documented definitions.

Deciding step: a monitor on `membership` of the 20 shape terms (+ Constant) compares every observed element with a
scalar closed-form model written from the docstrings, checks range, NaN-exactly-when-x-is-NaN, result shape,
array-vs-elementwise agreement, and (offline, over the recorded per-term table) monotonicity of the terms that declare
themselves monotonic."""
from __future__ import annotations

import math

import numpy as np

from ..core import import_library
from ..gen import terms as G
from ..env import ENVIRONMENTS, excusable, hostile
from ..probe import Probe, Reach, ResultKeeper, check_unmutated, snapshot_arrays
from ..ref import terms as R

WORKERS = {"quick": 1, "thorough": 16}
MAX_JUDGED = 96


def feq(a, b):
    return a == b or (math.isnan(a) and math.isnan(b))


class MembershipMonitor:
    """Always-on: judges every membership call on a shape term with valid parameters."""

    def __init__(self, ctx, fl, table=True):
        self.ctx, self.fl = ctx, fl
        self.table = {} if table else None  # (kind, params, h) -> {x: y}
        self.sel = __import__("random").Random(f"c03sel:{ctx.seed}:{ctx.shard}")
        self.orig = {}
        self.keeper = None  # ResultKeeper, set by the check's own workload
        self.hands_off = False  # True: judge from the recorded values only, make no call into the library (the workload is
        # looking for state that any call in between would reset)

    def install(self, probe):
        for kind in list(R.REF) + ["Constant"]:
            cls = getattr(self.fl, kind)
            self.orig[kind] = probe.wrap(cls, "membership", before=snapshot_arrays, after=self._after)

    def _after(self, args, kwargs, token, result, exc):
        x = check_unmutated(self.ctx, f"{type(args[0]).__name__}.membership", args, token)
        if self.keeper is not None and exc is None:
            self.keeper.after_call(f"{type(args[0]).__name__}.membership", result, args[1:2])
        self.judge(args[0], x, result, exc)

    def judge(self, term, x, result, exc):
        ctx = self.ctx
        kind = type(term).__name__
        if kind == "Constant":
            return self.judge_constant(term, x, result, exc)
        got = R.params_of(term)
        if got is None or not R.valid(*got):
            ctx.hit("out_of_domain:invalid or default parameters")
            return
        kind, p, h = got
        if kind in SQUARING and not computable(p):
            ctx.hit("out_of_domain:the documented definition squares a parameter that is beyond 1e+-150")
            return
        try:
            X = np.asarray(x, dtype=float)
        except Exception:
            ctx.hit("out_of_domain:non-numeric x")
            return
        case = {"term": kind, "params": list(p), "height": h}
        if exc is not None:
            ctx.violation(f"{kind}: membership raises {type(exc).__name__}", dict(case, x=X), "a value", repr(exc))
            return
        Y = np.asarray(result)
        if Y.shape != X.shape:
            ctx.violation(f"{kind}: result shape differs from the shape of x", dict(case, x_shape=X.shape), X.shape, Y.shape)
            return
        ctx.hit(f"calls:{kind}:{'scalar' if X.ndim == 0 else f'{X.ndim}d'}")
        xs, ys = X.ravel(), Y.astype(float).ravel()
        n = xs.size
        if n <= MAX_JUDGED:
            idx = list(range(n))
        else:
            pick = set(self.sel.sample(range(n), 48))
            for b in G.breakpoints({"cls": kind, "params": list(p)}):
                pick |= set(np.argsort(np.abs(xs - b))[:3].tolist())
            pick |= set(np.flatnonzero(~np.isfinite(xs))[:12].tolist()) | set(np.flatnonzero(~np.isfinite(xs))[-4:].tolist())
            pick |= set(range(8)) | set(range(n - 8, n))  # both ends (the last, incomplete block of a block-wise evaluation)
            idx = sorted(pick)
            ctx.hit("elements_not_judged", n - len(idx))
        ref = R.REF[kind]
        tab = None
        if self.table is not None and (len(self.table) < 4000 or (kind, p, h) in self.table):
            tab = self.table.setdefault((kind, p, h), {})
        for i in idx:
            v, y = float(xs[i]), float(ys[i])
            ctx.evaluated()
            if math.isnan(v):
                ctx.hit(f"piece:{kind}:nan-x")
                if not math.isnan(y):
                    ctx.violation(f"{kind}: membership of NaN is not NaN", dict(case, x=v), math.nan, y)
                continue
            e, piece, tol = ref(v, p, h)
            ctx.hit(f"piece:{kind}:{piece if not math.isinf(v) else 'infinite-x'}")
            if math.isnan(y):
                ctx.violation(f"{kind}: NaN membership for a non-NaN x", dict(case, x=v, piece=piece), e, y)
                continue
            if not (y == e or abs(y - e) <= tol):
                ctx.violation(f"{kind}: value differs from the documented definition", dict(case, x=v, piece=piece, tolerance=tol), e, y)
                continue
            if not (-4e-16 <= y <= h * (1 + 4e-16)):
                ctx.violation(f"{kind}: value outside [0, height]", dict(case, x=v), f"[0, {h}]", y)
            ctx.nontrivial(kind, p, h, v)
            if tab is not None and len(tab) < 400:
                tab[v] = y
        # array result must equal evaluating the elements one by one (exactly)
        if X.ndim > 0 and n > 0 and not self.hands_off:
            for i in self.sel.sample(idx, min(6, len(idx))):
                one = float(np.asarray(self.orig[kind](term, float(xs[i]))))
                ctx.hit("law:array==elementwise")
                ctx.evaluated()
                if not feq(one, float(ys[i])):
                    if abs(one - float(ys[i])) <= 4e-16 * max(1.0, abs(one)):
                        ctx.hit("ambiguous:array vs scalar differ by <=2ulp")
                    else:
                        ctx.violation(f"{kind}: array result differs from evaluating the element alone", dict(case, x=float(xs[i]), index=int(i), shape=X.shape), one, float(ys[i]))

    def judge_constant(self, term, x, result, exc):
        ctx = self.ctx
        ctx.hit("calls:Constant")
        if exc is not None:
            ctx.violation("Constant: membership raises", {"value": term.value}, "a value", repr(exc))
            return
        X, Y = np.asarray(x), np.asarray(result)
        ctx.evaluated()
        if Y.shape != X.shape:
            ctx.violation("Constant: result shape differs from the shape of x", {"value": term.value, "x_shape": X.shape}, X.shape, Y.shape)
        elif X.dtype.kind in "fiub" and not all(feq(float(v), float(term.value)) for v in Y.ravel()[:64]):
            ctx.violation("Constant: membership is not the constant", {"value": term.value}, term.value, Y.ravel()[:8])

    def check_monotonic(self):
        """offline pass: a term that declares itself monotonic must be monotone over all the points observed for it"""
        ctx, fl = self.ctx, self.fl
        for (kind, p, h), tab in self.table.items():
            term = getattr(fl, kind)("m", *p, h) if kind != "Discrete" else None
            if term is None or not term.is_monotonic():
                continue
            pts = sorted((x, y) for x, y in tab.items() if not math.isnan(x))
            if len(pts) < 3:
                continue
            ctx.hit(f"law:monotone:{kind}", len(pts) - 1)
            ctx.evaluated(len(pts) - 1)
            slack = 8e-16 * h
            if kind == "Arc":
                slack = max(R.REF[kind](x, p, h)[2] for x, _ in pts)  # ill-conditioned next to the zero end
            up = all(b[1] >= a[1] - slack for a, b in zip(pts, pts[1:]))
            down = all(b[1] <= a[1] + slack for a, b in zip(pts, pts[1:]))
            if not (up or down):
                bad = next((a, b) for a, b in zip(pts, pts[1:]) if (b[1] < a[1] - slack) != (pts[-1][1] < pts[0][1]))
                ctx.violation(f"{kind}: declares itself monotonic but is not monotone", {"term": kind, "params": list(p), "height": h, "points": [bad[0], bad[1]]}, "monotone", "not monotone")
        for kind in R.REF:
            declared = getattr(fl, kind)().is_monotonic()
            ctx.hit(f"declares_monotonic:{kind}:{declared}")


SQUARING = ("Arc", "SemiEllipse", "Gaussian", "GaussianProduct", "Bell")


def computable(p):
    """the documented definitions of Arc / SemiEllipse (r^2 - (x-c)^2), Gaussian (sigma^2) and Bell (|.|^2b) square quantities
    of the scale of the parameters: beyond 1e+-150 the definition itself is not computable in doubles"""
    vals = [abs(v) for v in p if math.isfinite(v) and v != 0.0]
    vals += [abs(a - b) for a in p for b in p if math.isfinite(a) and math.isfinite(b) and a != b]
    return not vals or (min(vals) >= 1e-150 and max(vals) <= 1e150)


def extreme_ranges(rnd):
    """ranges far from the origin, very wide and very narrow ones (parameters are any doubles, no decimals grid)"""
    c = rnd.random()
    if c < 0.4:
        lo = rnd.choice([1e6, -1e6, 1e9, 1e12, -1e12, 1e15])
        return lo, lo + rnd.choice([1.0, 16.0, 1000.0]), None
    if c < 0.6:
        w = rnd.choice([1e20, 1e100, 1e160, 1e300])
        return -w * rnd.choice([0.0, 1.0, 1.0]), w, None
    if c < 0.8:
        lo = rnd.uniform(-1, 1)
        return lo, lo + rnd.choice([1e-6, 1e-9, 1e-12]), None
    return 0.0, rnd.choice([1e-300, 1e-170, 1e-100, 1e-20]), None


def ranges(rnd):
    c = rnd.random()
    if c < 0.3:
        return 0.0, 1.0, rnd.choice([1, 3, 6])
    if c < 0.6:
        lo = G.snap(rnd.uniform(-10, 5), 1)
        return lo, G.snap(lo + rnd.choice([1.0, 2.5, 10.0, 0.5]), 1), rnd.choice([1, 3, 6])
    if c < 0.8:
        return -50.0, 50.0, rnd.choice([0, 1, 3])
    return G.snap(rnd.uniform(-1000, 0), 0), G.snap(rnd.uniform(1, 1000), 0), rnd.choice([0, 3, 6])


def run(ctx):
    fl = import_library()
    nparam = ctx.scale(200, 10000)
    ctx.rule = (
        "every membership call observed on a shape term with valid parameters: each element compared with the scalar closed form x height "
        "(1e-12; conditioning-aware for Arc/SemiEllipse), range [0,h], NaN iff x is NaN, result shape, array == element-wise (exact), "
        f"monotonicity of self-declared monotonic terms over the recorded points. Workload: 20 kinds + Constant x {nparam} parameterisations "
        "(decimals grid 0/1/3/6, both directions, vertical edges, infinite shoulders, heights in (0,1]) x ~50 x values (every breakpoint and "
        "its two neighbours, points crowded at the breakpoints, midpoints, out of range, +-inf, NaN) as float, 0-d, 1-D and 2-D. "
        "distinct_nontrivial = distinct (kind, parameters, height, x) judged"
    )
    ctx.assumptions += [
        "reference tolerance 1e-12 absolute (heights <= 1); Arc/SemiEllipse: first-order error propagation of the radicand r^2-(x-c)^2 (DESIGN §2.3 rule 3)",
        "SigmoidDifference is compared with h|a-b| (the docstring says h(a-b); the implementation's absolute value is the only reading with values in [0,h])",
        "parameters outside the validity rules of DESIGN §3 (default NaN parameters, unsorted vertices, zero widths) are out of domain and only counted",
    ]
    kinds = list(R.REF)
    funcs = {f"{k}.membership": getattr(fl, k).membership for k in kinds + ["Constant"]}
    ctx.excuse = lambda mechanism, observed, note: excusable(observed)
    with Reach(funcs) as reach, Probe() as probe:
        mon = MembershipMonitor(ctx, fl)
        mon.install(probe)
        mon.keeper = ResultKeeper(ctx)
        for i, rnd in ctx.cases("terms", len(kinds) * nparam):
            kind = kinds[i % len(kinds)]
            lo, hi, d = ranges(rnd) if (i // len(kinds)) % 8 != 7 else extreme_ranges(rnd)
            if d is None:
                ctx.hit("workload:range far from the origin, very wide or very narrow")
            spec = G.shape_term(rnd, "t", lo, hi, kind=kind, d=d, free_height=True)
            if kind in SQUARING and not computable(spec["params"]):
                lo, hi, d = ranges(rnd)  # (out of domain, see computable(); the pinned code raises OverflowError there)
                spec = G.shape_term(rnd, "t", lo, hi, kind=kind, d=d, free_height=True)
            route = rnd.choice(["constructor", "constructor", "factory", "create"])
            term = G.build_term(fl, spec, route=route)
            ctx.hit(f"route:{route}")
            # whatever the route, the term is the one that was asked for: the parameters and the height the definition is
            # scaled by are those given (a height that a route drops gives a different membership function)
            held = R.params_of(term)
            asked = (kind, tuple(float(v) for v in spec["params"]), float(spec["height"]))
            ctx.evaluated()
            if held != asked and not (held and held[0] == asked[0] and held[2] == asked[2] and len(held[1]) == len(asked[1]) and all(a == b or (a != a and b != b) for a, b in zip(held[1], asked[1]))):
                ctx.violation(f"a term built through the {route} route does not hold the parameters and height it was given", {"term": kind, "route": route, "params": spec["params"], "height": spec["height"]}, asked, held)
            xs = G.x_values(rnd, spec, lo, hi)
            form = i // len(kinds) % 4
            arr = np.array(xs)
            if form == 0:
                for v in xs:
                    term.membership(v)
            elif form == 1:
                term.membership(arr)
                for v in xs[:6]:
                    term.membership(np.array(v))
            elif form == 2:
                k = (len(xs) // 4) * 4
                term.membership(arr[:k].reshape(4, -1))
                term.membership(arr[k:])
            else:
                term.membership(np.sort(arr))
                term.membership(np.float64(xs[0]))
                term.membership(arr[:, None])
                term.membership([float(v) for v in xs[:7]])  # a plain list
                term.membership(int(round(lo)) if abs(lo) < 2.0**62 else 0)  # a Python int
                term.membership(arr[:6].astype(np.float32))
                term.membership(arr[:1])  # a batch of one
                ctx.hit("forms:list,int,float32,batch-of-one")
                # other memory layouts and element types of the same x values
                k = (len(xs) // 4) * 4
                M = arr[:k].reshape(4, -1)
                ro = np.array(arr[:5])
                ro.flags.writeable = False
                fin = [v for v in xs if math.isfinite(v) and abs(v) < 2.0**62] or [0.0]
                ilo = int(round(lo)) if abs(lo) < 2.0**62 else 0
                for what, A in {
                    "transposed": M.T, "fortran order": np.asfortranarray(M), "strided": arr[::3], "reversed": arr[::-1], "row": arr[None, :],
                    "read-only row broadcast over a batch": np.broadcast_to(ro, (3, 5)), "1x1": arr[:1].reshape(1, 1),
                    "integer array": np.array([int(round(v)) for v in fin[:8]]), "list of ints": [int(round(v)) for v in fin[:4]],
                    "numpy integer": np.int64(ilo), "tuple": tuple(fin[:3]),
                }.items():  # fmt: skip
                    term.membership(A)
                    ctx.hit("x form:" + what)
            if i < len(kinds) and i % 5 == 0:
                ctx.sample("term", {"spec": spec, "x": xs[:8], "membership": term.membership(np.array(xs[:8]))})
        # parameters that are exactly zero (a plateau ending at the origin, a range starting there): zero is a value like any other
        for i, rnd in ctx.cases("zero parameters", len(kinds) * ctx.scale(4, 40)):
            kind = kinds[i % len(kinds)]
            base = G.shape_term(rnd, "t", -1.0, 1.0, kind=kind, d=3, degenerate=False)
            for j in range(len(base["params"])):
                for zero in (0.0, -0.0):
                    spec = dict(base, params=[zero if k == j else v for k, v in enumerate(base["params"])], height=rnd.choice([1.0, 0.5]))
                    if kind == "Discrete" or not R.valid(kind, tuple(spec["params"]), spec["height"]):
                        continue
                    term = G.build_term(fl, spec, route=rnd.choice(["constructor", "factory"]))
                    held = R.params_of(term)
                    asked = (kind, tuple(float(v) for v in spec["params"]), float(spec["height"]))
                    ctx.evaluated()
                    ctx.hit("workload:a parameter that is exactly zero")
                    if held != asked:
                        ctx.violation("a term built with a parameter of exactly zero does not hold the parameters and height it was given", {"term": kind, "params": spec["params"], "height": spec["height"]}, asked, held)
                        continue
                    term.membership(np.array(G.x_values(rnd, spec, -1.0, 1.0, n=6)))
        # the same term and the same array object used again after the array was refilled / a parameter was changed (stale state)
        for i, rnd in ctx.cases("reuse", len(kinds) * ctx.scale(6, 120)):
            kind = kinds[i % len(kinds)]
            lo, hi, d = ranges(rnd)
            spec = G.shape_term(rnd, "t", lo, hi, kind=kind, d=d)
            term = G.build_term(fl, spec)
            buf = np.array(G.x_values(rnd, spec, lo, hi, n=8))
            # (two calls in a row on the same array object, refilled in between, with nothing else evaluated in between - not
            # even by the monitor: state remembered from the first call must not answer the second)
            mon.hands_off = i % 2 == 0
            for _ in range(3):
                r1 = term.membership(buf)
                keep = np.array(r1, copy=True)
                buf[:] = rnd.sample(G.x_values(rnd, spec, lo, hi, n=buf.size), buf.size)
                ctx.hit("event:buffer refilled in place")
                if not np.array_equal(np.asarray(r1), keep, equal_nan=True):
                    ctx.violation(f"{kind}: a returned result changes when the argument array is later modified (aliases its argument)", {"term": kind}, keep, r1)
                term.membership(buf)
                if kind != "Discrete":
                    term.height = rnd.choice([1.0, 0.5, 0.25])  # the monitor reads the parameters live
                    other = G.shape_term(rnd, "t", lo, hi, kind=kind, d=d)
                    for attr, v in zip(R.ATTRS[kind], other["params"]):
                        setattr(term, attr, v)
                    ctx.hit("event:parameters changed between calls")
                    term.membership(buf)
            mon.hands_off = False
        # large batches: sizes on both sides of every power of two from 2^12 to 2^17 (block-wise fast paths), with NaN and +-inf
        # among the values; 1-D and as a transposed matrix
        for i, rnd in ctx.cases("sizes", len(kinds)):
            kind = kinds[i]
            lo, hi, d = ranges(rnd)
            spec = G.shape_term(rnd, "t", lo, hi, kind=kind, d=d, degenerate=False)
            term = G.build_term(fl, spec)
            gen = np.random.default_rng(ctx.seed * 100 + i)
            for n in [2**k + dd for k in range(12, 18, 1) for dd in (0, 1)][:: 1 if ctx.thorough else 2] + [100_000]:
                x = lo - 0.25 * (hi - lo) + gen.random(n) * 1.5 * (hi - lo)
                x[:: 1013] = math.nan
                x[5:: 2027] = math.inf
                x[-3] = -math.inf
                term.membership(x)
                if n % 2 == 0:
                    term.membership(x.reshape(2, -1).T)
            ctx.hit("workload:large batch")
        # the process in another state: warnings are errors, the library logs at DEBUG, other NumPy print options - terms with
        # vertical edges and infinite shoulders included (their definitions divide by zero in the branches that are not taken)
        for i, rnd in ctx.cases("environments", len(kinds) * len(ENVIRONMENTS) * ctx.scale(2, 20)):
            kind, envname = kinds[i % len(kinds)], ENVIRONMENTS[(i // len(kinds)) % len(ENVIRONMENTS)]
            lo, hi, d = ranges(rnd)
            spec = G.shape_term(rnd, "t", lo, hi, kind=kind, d=d)
            if kind in ("Triangle", "Trapezoid") and i % 2:
                spec["params"][0] = rnd.choice([spec["params"][1], -math.inf])
                spec["params"][-1] = rnd.choice([spec["params"][-2], math.inf])
            xs = G.x_values(rnd, spec, lo, hi, n=6)
            with hostile(fl, envname, ctx):
                term = G.build_term(fl, spec)
                for arg in [np.array(xs)] + list(xs[:12]):
                    try:
                        term.membership(arg)
                    except Exception:
                        pass  # judged by the monitor (an overflow warning turned into an error is the environment's doing)
        # a Discrete term whose pairs are put in order by sort(): the pairs stay pairs, and a sorted term is left as it is
        for i, rnd in ctx.cases("discrete-sort", ctx.scale(30, 600)):
            n = rnd.randint(2, 7)
            xs = rnd.sample([k / 8 for k in range(-16, 17)], n)
            ys = [rnd.choice([0.0, 1.0, rnd.random()]) for _ in range(n)]
            term = fl.Discrete("d", fl.Discrete.to_xy(xs, ys))
            want = sorted(zip(xs, ys))
            for _ in range(2):
                term.sort()
                ctx.evaluated()
                got = [(float(a), float(b)) for a, b in np.asarray(term.values).tolist()]
                if got != [(float(a), float(b)) for a, b in want]:
                    ctx.violation("Discrete.sort() does not keep the (x, y) pairs together in ascending order of x", {"x": xs, "y": ys}, want, got)
                    break
            term.membership(np.array(sorted(xs) + [-3.0, 3.0, math.nan]))
            ctx.hit("event:Discrete sorted before evaluation")
        # Constant as the degenerate case
        for i, rnd in ctx.cases("constant", ctx.scale(20, 400)):
            c = fl.Constant("k", rnd.choice([0.0, 1.5, -3.25, rnd.uniform(-10, 10), math.inf]))
            for x in (0.5, np.array(0.5), np.array([0.1, math.nan, math.inf]), np.zeros((2, 3)), 1, np.array([0, 1, 2]), [1, 2], np.array([True, False]), np.float32(0.5)):
                c.membership(x)
        mon.check_monotonic()
        probe.report(ctx)
        reach.report(ctx)
    ctx.require("workload:a parameter that is exactly zero")
    ctx.require("workload:range far from the origin, very wide or very narrow", *[f"environment:{e}" for e in ENVIRONMENTS])
    ctx.require("workload:large batch", "event:Discrete sorted before evaluation", "law:results of earlier calls left alone", "x form:transposed", "x form:integer array", "x form:read-only row broadcast over a batch")
    for k in kinds:
        ctx.require(f"hook:{k}.membership", f"piece:{k}:nan-x", f"piece:{k}:infinite-x")
    if ctx.nshards == 1:
        required_pieces(ctx)


def required_pieces(ctx):
    """every piece of every definition named in the property must have been exercised"""
    need = {
        "Arc": ["arc", "before-start", "beyond-end", "on-start", "on-end", "ulp-of-end", "ulp-of-start"],
        "Trapezoid": ["outside", "rising", "plateau", "falling", "left-shoulder", "right-shoulder", "on-a", "on-b", "on-c", "on-d", "ulp-of-a", "ulp-of-d"],
        "Triangle": ["outside", "rising", "falling", "on-a", "on-b", "on-c", "left-shoulder", "right-shoulder"],
        "SShape": ["zero", "lower-half", "upper-half", "one", "on-midpoint", "on-start", "on-end"],
        "ZShape": ["zero", "lower-half", "upper-half", "one", "on-midpoint", "on-start", "on-end"],
        "PiShape": ["plateau", "rising-lower-half", "rising-upper-half", "falling-lower-half", "falling-upper-half", "on-top_left", "on-bottom_right"],
        "Ramp": ["zero", "one", "slope", "on-start", "on-end"],
        "Rectangle": ["inside", "outside", "on-start", "on-end", "ulp-of-start", "ulp-of-end"],
        "SemiEllipse": ["inside", "outside", "on-start", "on-end", "ulp-of-start", "ulp-of-end"],
        "Cosine": ["inside", "outside", "on-left-foot", "on-right-foot", "on-center"],
        "Concave": ["increasing", "decreasing", "beyond-end", "on-end", "on-inflection"],
        "Binary": ["on-side", "off-side", "on-start", "ulp-of-start"],
        "Discrete": ["left-of-first", "right-of-last", "between-pairs", "on-x0"],
        "GaussianProduct": ["left-gaussian", "right-gaussian", "plateau", "on-mean_a", "on-mean_b"],
        "Sigmoid": ["lower", "upper", "on-inflection"],
        "Bell": ["core", "tail", "on-center"],
        "Gaussian": ["core", "tail", "on-mean"],
        "Spike": ["left", "right", "on-center"],
    }
    for kind, pieces in need.items():
        for p in pieces:
            ctx.require(f"piece:{kind}:{p}")


def passive(ctx, fl, probe):
    """attach this property's always-on monitor to a foreign workload (the repository's test-suite, see vf/pytest_plugin.py)"""
    mon = MembershipMonitor(ctx, fl)
    mon.install(probe)
    return mon.check_monotonic
